#!/usr/bin/env python3
"""Regenerates /verif/MANIFEST.json from the table below (kept next to the code
so the manifest never drifts from what is built)."""
import json, os, subprocess
HERE = os.path.dirname(os.path.dirname(os.path.abspath(__file__)))

LEVEL_TEXT = ("seeded search over schedules, fault sequences and generated workloads in a deterministic "
              "simulator running the shipped code; every run is checked by oracles during the run and over its "
              "recorded history. A clean batch is evidence, not proof: exploration is the honest level.")

GW = 'Trusts: the gw world (DESIGN §4): shipped handler chain, controller, informer, probing, transports and dispatcher run unmodified over in-bubble pipes (hooks H1, H2, H4); clients, upstreams and the object store are stubs; plain HTTP/1.1 only; between two driver steps goroutines run under a single-P Go runtime (the seed decides every stimulus, not statement interleavings); net/http select coins under connection-teardown faults are not owned by the tape (replays are retried, see DESIGN §2.7). '

CHECKS = {
 "C18": dict(design="§C18", technique="deterministic simulation with fault injection: real limiter replicas and real gateway client sets (heartbeats on the fake clock); instances die, are cut off, return or join; bounded-liveness clause for reclamation (36 s) and a safety clause for live instances evaluated at every boundary against observed heartbeat arrivals and uninterrupted leadership",
   note="Trusts: the rl world (DESIGN §4). 'The cleanup period' is the longer of the two shipped mechanisms. Loss of records around a leader change is outside the live-instance clause as formulated (the instance must be known to the current leader)."),
 "C13": dict(design="§C13", technique="deterministic simulation with fault injection: real limiter replicas with real lease election under API cuts, crashes, restarts and partitions; RPCs sent to leaders and non-leaders; leader guard judged against each replica's own elector view at the boundaries around every call",
   note="Trusts: the rl world (DESIGN §4). No unique-leader assumption (lease semantics). The shard function's range/determinism over all inputs is only sampled: that part is a pure function."),
 "C07": dict(design="§C07", technique="deterministic simulation: real limiter replicas (lease election, informer-driven limit changes, real handler chain) driven by seeded sequences of honest instance reports; recorded quotas read back through the server's API after every answer; overlap profile: concurrent reports run as sim threads through the yield-instrumented UpdateRateLimitConditionStatus under seeded statement-level schedules",
   note="Trusts: the rl world (DESIGN §4): replicas and gateway client sets run shipped code over simnet/simapi; instances' reporting logic is synthetic but honest as defined in the rule. Profile c07-sequences issues reports one at a time; profile c07o-overlap overlaps them at statement granularity (go/ast yields in ratelimter.go, cooperative locks)."),
 "C09": dict(design="§C09", technique="deterministic simulation with fault injection: the real gateway limiter stack against a byzantine scripted limiter server over a simulated network (readiness flaps, leader unknown, partitions, arbitrary int32 answers), admissions attributed to limiter objects; bounded-liveness clause after faults stop",
   note="Trusts: the rlstub world (DESIGN §4): real clientsets/UpstreamLimiter/reconcile/global counter/wrappers; the server is a script because the property quantifies over whatever it answers. Known finding F-C09-1 (two limiter objects) is listed in known_findings.json."),
 "C16": dict(design="§C16", technique="deterministic simulation: seeded mutation of valid objects through the real admission plugin, then the real apply pipeline (store, informer, controller goroutine, ClusterInfo, limiter store) with panic interception; twin comparison for updates",
   note=GW+"The deciding power is seeded object generation; the simulation adds the real apply pipeline and its goroutines. The limiter's UpstreamConditionHandler under leadership is exercised in the rl world."),
 "C01": dict(design="§C01", technique="deterministic simulation: seeded (policy list, request) generation against a running simulated gateway with reloads; reference matcher written from the documentation as oracle; policy observed through disjoint upstream subsets",
   note=GW+"The deciding power for rule semantics is seeded input generation; the simulation contributes history independence and never-forwarded-when-unmatched at the system boundary."),
 "C02": dict(design="§C02", technique="deterministic simulation: seeded raw-HTTP header combinations through the real filter chain and impersonating transport; oracle evaluated on what the stub upstream actually received",
   note=GW+"Reference identity computed from the property text (kube impersonation rules for system:authenticated). No websocket/upgrade traffic."),
 "C03": dict(design="§C03", technique="deterministic simulation with fault injection: seeded interleaving of requests (held at stubs), spec updates, health flaps and clock advances; boundary snapshots of the gateway's own view as oracle",
   note=GW+"A forwarded request is judged against the state before and after the step it was picked in; one stray probe per disable (a probe already in flight or queued) is accepted."),
 "C04": dict(design="§C04", technique="deterministic simulation: seeded raw-HTTP requests and scripted upstream responses compared end to end; gateway-terminated cases provoked through state; separate fault configuration",
   note=GW+"Decoded paths are compared; malformed query pairs are outside the comparison; the HTTP layer's own additions are allow-listed from a calibration run. What the client sees after a mid-stream upstream cut is recorded as an observation only."),
 "C10": dict(design="§C10", technique="deterministic simulation with fault injection: seeded histories of create/update/delete with colliding names through real admission and controller, watch streams held back (admission/controller lag); invariants at every boundary and convergence clauses at stable points; TLS providers called per SNI",
   note=GW+"TLS handshakes are not simulated. One known finding (circular name conflict after admission was bypassed) is listed in known_findings.json."),
 "C11": dict(design="§C11", technique="deterministic simulation with fault injection: seeded object histories over every hot-reloadable section incl. requeues of superseded versions; fresh twin gateway in the same bubble as oracle",
   note=GW+"Compared through public accessors and routing/limiter probes; client connection settings excluded as stated."),
 "C12": dict(design="§C12", technique="deterministic simulation with fault injection: seeded request sequences alternating hosts with identical credentials, per-cluster answers changing over time, TTL-sized clock gaps, unreachable clusters, delete/re-create, alias moves; every forwarded identity and review attributed to the host's own cluster",
   note=GW+"Cached answers may be as old as the longest TTL (+50 ms)."),
 "C15": dict(design="§C15", technique="deterministic simulation: requests parked in every phase of their life (review, before headers, mid-stream), one seeded removal, bounded-liveness oracle on the fake clock (2 s), bystander progress checks",
   note=GW+"'Promptly' = 2 simulated seconds; probing must stop within one interval + 1.5 s."),
 "C06": dict(
   design="§C06",
   technique="deterministic simulation on a fake clock (testing/synctest): seeded arrival processes against the real local token-bucket stack; pairwise window oracle and idle-refill oracle over the recorded (time, result) list",
   note="Trusts: the bubble clock is the only clock the limiter reads (golang.org/x/time/rate via time.Now); epsilon of 1e-6 token (applied as the time it takes to earn epsilon tokens) for float rounding; concurrency is modelled as same-instant arrivals, the limiter's own mutex serialises real threads. 429 mapping is checked in the gw world."),
 "C19": dict(
   design="§C19",
   technique="deterministic simulation with fault injection: real k8s objectStore over a simulated API with two sim points per call (error, lost acknowledgement, crash), seeded caller schedules on a fake clock, crash or graceful stop, successors Load(); durability oracle over the recorded operation history",
   note="Trusts: simapi reproduces the API semantics the store relies on (unconditional update, NotFound/AlreadyExists/Conflict, status/spec separation); injected errors are only those a real API server may answer regardless of state (conflict, transient, timeout before or after applying); NotFound/AlreadyExists arise from the state itself. Specs (not status) are compared."),
 "C05": dict(
   design="§C05",
   technique="deterministic simulation: seeded statement-level interleaving of the real limiter stack (yield-instrumented overlay incl. the maxinflight dependency) + porcupine linearizability against a sequential max-in-flight model with epochs + drain check",
   note="Trusts: statement-granularity interleaving with sequentially consistent atomics; the go/ast instrumentation; request threads reproduce the dispatcher calling pattern (GetOrDefault, TryAcquire, deferred Release on the same object). HTTP exit paths (upstream error, no ready endpoint, client abort, panic) are exercised by the gw world once built."),
 "C14": dict(
   design="§C14",
   technique="deterministic simulation: seeded statement-level interleaving of concurrent Pop() calls (yield-instrumented overlay) with tape-owned map order (hook H4), window-balance oracle over quiescence-delimited stretches",
   note="Trusts: consecutive picks under concurrency are delimited by quiescent points; all-endpoints policies get a k! allowance (one cursor per map ordering). Endpoint health is set directly (no probes) in this world."),
 "C08": dict(
   design="§C08",
   technique="deterministic simulation: seeded statement-level interleaving of the real SetState/Resize code (yield-instrumented overlay) + porcupine linearizability against a sequential counter model + quiescent invariants",
   note="Trusts: Go's sequentially consistent atomics at statement granularity (no finer reordering); the go/ast yield instrumentation preserves semantics (only inserts calls and turns Lock() into TryLock loops); DebugInfo() as the observation of recorded counts. Token-bucket/RPC part (DoAcquire) is covered by the rl world once built; until then this check covers the max-in-flight accounting clauses only."),
}

NOT_BUILT = {
}

NA = {
 "C17": "pure function of (rule, request): RuleMatches(rule) vs RuleMatches(normalize(rule)); no state, clock, I/O, schedule, fault or history for a simulator to own (DESIGN §6) — input-space techniques are the right tool",
 "C20": "pure function of (stored object, submitted object) computed by PrepareForCreate/Update; nothing consumes generation, no concurrency, time or multi-party behaviour to simulate (DESIGN §6)",
}

def main():
    props = [json.loads(l)["id"] for l in open(os.path.join(HERE, "properties.jsonl"))]
    hooks = subprocess.run(["git", "-C", "/repo", "log", "--format=%H %s"], capture_output=True, text=True).stdout.splitlines()
    hook_commits = [l.split()[0] for l in hooks if " verif hook " in " " + l]
    m = {
      "version": 1,
      "setup_cmd": "./setup.sh",
      "hooks": {
        "guard": "verif",
        "enable": "go1.26.8 test -c -tags verif -overlay <generated yield overlay> (done by ./check from /repo's working tree)",
        "baseline_off_cmd": "for m in . ./staging/src/github.com/kubewharf/apiserver-runtime; do (cd /repo/$m && GOFLAGS=-mod=mod go test -json -vet=off -count=1 -timeout 25m ./...); done",
        "source_commits": hook_commits,
        "add_only": True,
      },
      "engines": [{
        "name": "kgsim",
        "path": "harness/",
        "serves_properties": sorted(CHECKS.keys()),
        "kind_free_text": "deterministic simulator: choice tape (one seed = one run), testing/synctest fake clock, simulated network/API server with fault injection, cooperative statement-level scheduler over go/ast-instrumented overlays, porcupine history checking, tape shrinker and replay",
      }],
      "checks": [],
      "notes": "All checks: ./check <id> [--tier quick|thorough] [--replay file]; exit 0 held / 1 VIOLATION / 2 build or harness trouble. known_findings.json lists recorded findings and fixed defects.",
      "not_applicable": [],
    }
    for pid in props:
        if pid in CHECKS:
            c = CHECKS[pid]
            m["checks"].append({
              "property_id": pid,
              "quick_cmd": f"./check {pid} --tier quick",
              "thorough_cmd": f"./check {pid} --tier thorough",
              "evidence_file": f"evidence/{pid}.json",
              "replay_cmd_template": "./check --replay {path}",
              "engine": "kgsim",
              "level_claimed": {"category": "exploration", "text": LEVEL_TEXT, "design_ref": "DESIGN.md " + c["design"]},
              "level_note": c["note"],
              "technique": c["technique"],
            })
        elif pid in NA:
            m["not_applicable"].append({"property_id": pid, "reason": NA[pid]})
        else:
            m["not_applicable"].append({"property_id": pid, "reason": NOT_BUILT.get(pid, "check not built yet (designed in DESIGN.md §%s; will be claimed when its world runs end to end)" % pid)})
    json.dump(m, open(os.path.join(HERE, "MANIFEST.json"), "w"), indent=1)
    print("checks:", [c["property_id"] for c in m["checks"]], "n/a:", [n["property_id"] for n in m["not_applicable"]])

main()
