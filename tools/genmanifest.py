#!/usr/bin/env python3
"""Regenerates /verif/MANIFEST.json from the table below (kept next to the code
so the manifest never drifts from what is built)."""
import json, os, subprocess
HERE = os.path.dirname(os.path.dirname(os.path.abspath(__file__)))

LEVEL_TEXT = ("seeded search over schedules, fault sequences and generated workloads in a deterministic "
              "simulator running the shipped code; every run is checked by oracles during the run and over its "
              "recorded history. A clean batch is evidence, not proof: exploration is the honest level.")

CHECKS = {
 "C06": dict(
   design="§C06",
   technique="deterministic simulation on a fake clock (testing/synctest): seeded arrival processes against the real local token-bucket stack; pairwise window oracle and idle-refill oracle over the recorded (time, result) list",
   note="Trusts: the bubble clock is the only clock the limiter reads (golang.org/x/time/rate via time.Now); epsilon of 1e-6 token (applied as the time it takes to earn epsilon tokens) for float rounding; concurrency is modelled as same-instant arrivals, the limiter's own mutex serialises real threads. 429 mapping is checked in the gw world."),
 "C19": dict(
   design="§C19",
   technique="deterministic simulation with fault injection: real k8s objectStore over a simulated API with two sim points per call (error, lost acknowledgement, crash), seeded caller schedules on a fake clock, crash or graceful stop, successors Load(); durability oracle over the recorded operation history",
   note="Trusts: simapi reproduces the API semantics the store relies on (unconditional update, NotFound/AlreadyExists/Conflict, status/spec separation); injected errors are only those a real API server may answer regardless of state (conflict, transient, timeout before or after applying); NotFound/AlreadyExists arise from the state itself. Specs (not status) are compared."),
 "C05": dict(
   design="§C05",
   technique="deterministic simulation: seeded statement-level interleaving of the real limiter stack (yield-instrumented overlay incl. the maxinflight dependency) + porcupine linearizability against a sequential max-in-flight model with epochs + drain check",
   note="Trusts: statement-granularity interleaving with sequentially consistent atomics; the go/ast instrumentation; request threads reproduce the dispatcher calling pattern (GetOrDefault, TryAcquire, deferred Release on the same object). HTTP exit paths (upstream error, no ready endpoint, client abort, panic) are exercised by the gw world once built."),
 "C14": dict(
   design="§C14",
   technique="deterministic simulation: seeded statement-level interleaving of concurrent Pop() calls (yield-instrumented overlay) with tape-owned map order (hook H4), window-balance oracle over quiescence-delimited stretches",
   note="Trusts: consecutive picks under concurrency are delimited by quiescent points; all-endpoints policies get a k! allowance (one cursor per map ordering). Endpoint health is set directly (no probes) in this world."),
 "C08": dict(
   design="§C08",
   technique="deterministic simulation: seeded statement-level interleaving of the real SetState/Resize code (yield-instrumented overlay) + porcupine linearizability against a sequential counter model + quiescent invariants",
   note="Trusts: Go's sequentially consistent atomics at statement granularity (no finer reordering); the go/ast yield instrumentation preserves semantics (only inserts calls and turns Lock() into TryLock loops); DebugInfo() as the observation of recorded counts. Token-bucket/RPC part (DoAcquire) is covered by the rl world once built; until then this check covers the max-in-flight accounting clauses only."),
}

NOT_BUILT = {
}

NA = {
 "C17": "pure function of (rule, request): RuleMatches(rule) vs RuleMatches(normalize(rule)); no state, clock, I/O, schedule, fault or history for a simulator to own (DESIGN §6) — input-space techniques are the right tool",
 "C20": "pure function of (stored object, submitted object) computed by PrepareForCreate/Update; nothing consumes generation, no concurrency, time or multi-party behaviour to simulate (DESIGN §6)",
}

def main():
    props = [json.loads(l)["id"] for l in open(os.path.join(HERE, "properties.jsonl"))]
    hooks = subprocess.run(["git", "-C", "/repo", "log", "--format=%H %s"], capture_output=True, text=True).stdout.splitlines()
    hook_commits = [l.split()[0] for l in hooks if " verif hook " in " " + l]
    m = {
      "version": 1,
      "setup_cmd": "./setup.sh",
      "hooks": {
        "guard": "verif",
        "enable": "go1.26.8 test -c -tags verif -overlay <generated yield overlay> (done by ./check from /repo's working tree)",
        "baseline_off_cmd": "for m in . ./staging/src/github.com/kubewharf/apiserver-runtime; do (cd /repo/$m && GOFLAGS=-mod=mod go test -json -vet=off -count=1 -timeout 25m ./...); done",
        "source_commits": hook_commits,
        "add_only": True,
      },
      "engines": [{
        "name": "kgsim",
        "path": "harness/",
        "serves_properties": sorted(CHECKS.keys()),
        "kind_free_text": "deterministic simulator: choice tape (one seed = one run), testing/synctest fake clock, simulated network/API server with fault injection, cooperative statement-level scheduler over go/ast-instrumented overlays, porcupine history checking, tape shrinker and replay",
      }],
      "checks": [],
      "notes": "All checks: ./check <id> [--tier quick|thorough] [--replay file]; exit 0 held / 1 VIOLATION / 2 build or harness trouble. known_findings.json lists recorded findings and fixed defects.",
      "not_applicable": [],
    }
    for pid in props:
        if pid in CHECKS:
            c = CHECKS[pid]
            m["checks"].append({
              "property_id": pid,
              "quick_cmd": f"./check {pid} --tier quick",
              "thorough_cmd": f"./check {pid} --tier thorough",
              "evidence_file": f"evidence/{pid}.json",
              "replay_cmd_template": "./check --replay {path}",
              "engine": "kgsim",
              "level_claimed": {"category": "exploration", "text": LEVEL_TEXT, "design_ref": "DESIGN.md " + c["design"]},
              "level_note": c["note"],
              "technique": c["technique"],
            })
        elif pid in NA:
            m["not_applicable"].append({"property_id": pid, "reason": NA[pid]})
        else:
            m["not_applicable"].append({"property_id": pid, "reason": NOT_BUILT.get(pid, "check not built yet (designed in DESIGN.md §%s; will be claimed when its world runs end to end)" % pid)})
    json.dump(m, open(os.path.join(HERE, "MANIFEST.json"), "w"), indent=1)
    print("checks:", [c["property_id"] for c in m["checks"]], "n/a:", [n["property_id"] for n in m["not_applicable"]])

main()
