#!/usr/bin/env python3
"""Regenerates seeded/RESULTS.md from seeded/*/meta.json."""
import json, glob, os
root = os.path.join(os.path.dirname(os.path.abspath(__file__)), '..', 'seeded')
rows = []
for d in sorted(glob.glob(os.path.join(root, '*', 'meta.json'))):
    m = json.load(open(d))
    rows.append(m)
out = ["# Seeded changes\n",
       "Each directory holds a change to kubewharf/kubegateway that breaks one property, still compiles and passes the",
       "existing test suite, written by a sub-agent that saw only the property text and a scratch worktree (nothing from",
       "/verif). `patch.diff` is the change, the `*_test.go` file(s) the author's demonstration (fails with the change,",
       "passes without it; confirmed with `tools/confirm_seeded.sh`), `meta.json` what it needs to manifest, what was run",
       "and which check catches it. None of them is ever applied to /repo other than transiently",
       "(`tools/try_patch.sh <patch> <check>` uses a scratch worktree and `KG_REPO`).\n",
       "| id | property | file(s) | needs to manifest | check result |", "|---|---|---|---|---|"]
for m in rows:
    need = m.get('needs_to_manifest', '').replace('\n', ' ').replace('|', '/')
    if len(need) > 260:
        need = need[:257] + '...'
    chk = m.get('checks', '').replace('|', '/')
    out.append("| %s | %s | %s | %s | %s |" % (m.get('id'), m.get('property'), ', '.join(os.path.basename(f) for f in m.get('files_changed', [])), need, chk))
missed = [m for m in rows if 'missed' in m.get('checks', '') or 'before' in m.get('checks', '') or 'new' in m.get('checks', '')]
out.append("\n%d changes kept; %d of them were missed by the checks as first built and led to a stronger generator or oracle (see the last column and DESIGN.md §12.6)." % (len(rows), len(missed)))
open(os.path.join(root, 'RESULTS.md'), 'w').write('\n'.join(out) + '\n')
print(len(rows), 'rows')
