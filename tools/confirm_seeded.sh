#!/bin/bash
# tools/confirm_seeded.sh <ID>   (agent worktree /tmp/mut/<ID>, deliverables /tmp/mut/<ID>-out)
# Confirms in the scratch worktree: builds, the existing suite (without the demonstration) passes with the
# change, the demonstration fails with the change and passes without it.
set -u
ID="$1"; OUT=/tmp/mut/$ID-out; WT=/tmp/mut/$ID
export GOFLAGS=-mod=mod GOPROXY=off GOSUMDB=off
DEMO=$(python3 -c "import json;print(json.load(open('$OUT/meta.json'))['demo_cmd'])")
echo "demo_cmd: $DEMO"
cd "$WT" || exit 2
git diff --stat | tail -3
echo "== build"; go build ./... 2>&1 | tail -3
echo "== demo WITH change (must fail)"; ( eval "$DEMO" ) > /tmp/mut/$ID.with.log 2>&1; echo "exit=$?"; tail -3 /tmp/mut/$ID.with.log | cut -c1-200
# take out only the tracked source change (not git stash: the stash is shared by all worktrees); demo test files stay
git diff > /tmp/mut/$ID.cur.diff; git apply -R /tmp/mut/$ID.cur.diff
echo "== demo WITHOUT change (must pass)"; ( eval "$DEMO" ) > /tmp/mut/$ID.without.log 2>&1; echo "exit=$?"; tail -2 /tmp/mut/$ID.without.log | cut -c1-200
git apply /tmp/mut/$ID.cur.diff; rm -f /tmp/mut/$ID.cur.diff
# the existing suite, with the change, without the untracked demonstration files
mkdir -p /tmp/mut/$ID.untracked
git ls-files --others --exclude-standard > /tmp/mut/$ID.untracked.lst
while read -r f; do mkdir -p "/tmp/mut/$ID.untracked/$(dirname "$f")"; mv "$f" "/tmp/mut/$ID.untracked/$f"; done < /tmp/mut/$ID.untracked.lst
echo "== suite with change (root module)"; go test -vet=off -count=1 ./... 2>&1 | grep "^FAIL\|^--- FAIL\|^panic" | head -5; echo "suite done (FAIL lines above, if any)"
while read -r f; do mv "/tmp/mut/$ID.untracked/$f" "$f"; done < /tmp/mut/$ID.untracked.lst
rm -rf /tmp/mut/$ID.untracked /tmp/mut/$ID.untracked.lst
