#!/bin/bash
# tools/keep_seeded.sh <ID> <caught-by text>   -- after tools/confirm_seeded.sh <ID> succeeded
set -eu
ID="$1"; CAUGHT="$2"; OUT=/tmp/mut/$ID-out; D="$(dirname "$0")/../seeded/$ID"
mkdir -p "$D"
cp "$OUT/patch.diff" "$D/patch.diff"
for f in "$OUT"/*_test.go; do cp "$f" "$D/"; done
python3 - "$OUT/meta.json" "$D/meta.json" "$ID" "$CAUGHT" <<'PY'
import json,sys
m=json.load(open(sys.argv[1]))
m['id']=sys.argv[3]
m['demo_cmd']=m.get('demo_cmd','').replace('/tmp/mut/'+sys.argv[3],'<worktree>')
m['confirmed']={'how':'tools/confirm_seeded.sh in the scratch worktree: go build ./... ok; root-module suite (without the demonstration file) passes with the change; demonstration fails with the change and passes with the change reverse-applied',
 'base_commit':__import__('os').environ.get('BASE_COMMIT') or __import__('subprocess').check_output(['git','-C','/repo','rev-parse','--short','HEAD']).decode().strip()}
m['checks']=sys.argv[4]
json.dump(m,open(sys.argv[2],'w'),indent=1)
PY
echo kept $D
