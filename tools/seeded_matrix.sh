#!/bin/bash
# tools/seeded_matrix.sh [ids...]  -- applies every kept seeded change to a scratch worktree of /repo HEAD and runs
# the QUICK tier of the check(s) named for it; writes seeded/MATRIX.md (id, check, verdict, violating classes).
cd "$(dirname "$0")/.."
declare -A ALT=( [C11-c]="C10 C11" [C11-e]="C10" [C13-d]="C19" [C06-c]="C09" [C04-c]="C15" [C01-e]="C11" [C16-e]="C03" [C01-g]="C15 C11" [C11-g]="C09" [C18-g]="C18 C19" [C04-h]="C15" [C06-h]="C06 C09" [C03-i]="C03 C15" )
OUT=seeded/MATRIX.md
# MATRIX_APPEND=1 tools/seeded_matrix.sh <ids...>: add rows for these ids to the existing file
if [ -n "${MATRIX_APPEND:-}" ]; then
  grep -v "^exit 1 = \|^$" $OUT > $OUT.tmp; mv $OUT.tmp $OUT
else
{
echo "# Detection matrix (quick tier, seed 1) at /repo $(git -C /repo rev-parse --short HEAD), /verif $(git rev-parse --short HEAD)"
echo
echo "| change | check | exit | violating classes (runs) |"
echo "|---|---|---|---|"
} > $OUT
fi
ids="$@"; [ -z "$ids" ] && ids=$(ls seeded | grep -v "\.md$")
for id in $ids; do
  d=seeded/$id; [ -d "$d" ] || continue
  p=$(ls $d/patch.rebased-*.diff 2>/dev/null | head -1); [ -z "$p" ] && p=$d/patch.diff
  prop=${id%%-*}; checks=${ALT[$id]:-$prop}
  WT=$(mktemp -d /tmp/kgmx.XXXXXX); rmdir $WT
  git -C /repo worktree add -q --detach $WT HEAD || continue
  if ! git -C $WT apply "$(readlink -f $p)" 2>/dev/null; then
    echo "| $id | - | - | patch does not apply to HEAD (see meta.json) |" >> $OUT
    git -C /repo worktree remove --force $WT; continue
  fi
  for c in $checks; do
    cp evidence/$c.json $WT.ev 2>/dev/null
    log=$(KG_REPO=$WT ./check $c --no-shrink 2>&1); ec=$?
    [ -f $WT.ev ] && mv $WT.ev evidence/$c.json
    cls=$(echo "$log" | grep "violating runs" | grep -v "instance_total_exceeds_global\|fresh_bucket_per_server_flip\|stuck-behind-stale-claim" | sed 's/kgcheck: violating runs: *//' | awk '{n=$1; $1=""; printf "%s (%s); ", $0, n}' | cut -c1-220)
    echo "| $id | $c | $ec | $cls |" >> $OUT
  done
  git -C /repo worktree remove --force $WT
done
echo >> $OUT
echo "exit 1 = the check reports a violation that is not a listed known finding; exit 0 = not detected by the quick tier at this seed (see RESULTS.md for the run counts at which rarer ones show); exit 2 = build or harness trouble." >> $OUT
