#!/bin/bash
# tools/mk_mut.sh <PID> <suffix>  -> scratch worktree /tmp/mut/<PID>-<suffix> and prompt /tmp/mut/prompt-<PID>-<suffix>.txt
set -eu
PID="$1"; ID="$1-$2"; V="$(cd "$(dirname "$0")/.." && pwd)"
mkdir -p /tmp/mut/$ID-out
[ -d /tmp/mut/$ID ] || git -C /repo worktree add -q --detach /tmp/mut/$ID HEAD
python3 - "$V" "$PID" "$ID" <<'PY'
import json,sys
v,pid,id=sys.argv[1:4]
prop=[json.loads(l) for l in open(v+'/properties.jsonl') if json.loads(l)['id']==pid][0]
t=open(v+'/tools/mut_prompt.tmpl').read()
t=t.replace('__WT__','/tmp/mut/'+id).replace('__ID__',id).replace('__PID__',pid).replace('__PROP__',json.dumps(prop,indent=1))
open('/tmp/mut/prompt-%s.txt'%id,'w').write(t)
PY
echo /tmp/mut/prompt-$ID.txt
