#!/bin/bash
# tools/try_patch.sh <patch.diff> <check-id> [more ids...]
# Applies the patch to a scratch worktree of /repo HEAD (outside /repo and /verif), runs the quick tier of
# the given checks against it (KG_REPO), prints the verdict lines, removes the worktree.
set -u
P="$(readlink -f "$1")"; shift
WT=$(mktemp -d /tmp/kgtry.XXXXXX)
rmdir "$WT"
git -C /repo worktree add -q --detach "$WT" HEAD || exit 2
if ! git -C "$WT" apply "$P"; then echo "patch does not apply"; git -C /repo worktree remove --force "$WT"; exit 2; fi
cd "$(dirname "$0")/.."
for c in "$@"; do
  echo "--- $c on $(basename "$P")"
  cp "evidence/$c.json" "$WT.ev.$c" 2>/dev/null
  KG_REPO="$WT" ./check "$c" ${TRY_ARGS:-} 2>&1 | grep "^VIOLATION\|^KNOWN\|^  class\|^kgcheck: viol\|^kgcheck: C\|^kgcheck: build failed\|HARNESS\|HUNG" | cut -c1-400 | head -12
  [ -f "$WT.ev.$c" ] && mv "$WT.ev.$c" "evidence/$c.json"   # evidence of a mutated tree is never kept
done
git -C /repo worktree remove --force "$WT"
