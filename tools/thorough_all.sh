#!/bin/bash
# runs the thorough tier of every check (used in background runs)
cd "$(dirname "$0")/.."
[ -n "$VP_RUN_REPO" ] && export KG_REPO="$VP_RUN_REPO"
for c in C08 C05 C14 C06 C19 C03 C04 C02 C01 C15 C12 C11 C10 C16 C09 C07 C13 C18; do
  echo "=== $c seed=${VERIF_SEED:-1}"; ./check $c --tier thorough 2>&1 | grep -v "^  0\|^$" | tail -12
done
