#!/bin/bash
# tools/baseline.sh  -- runs the pinned suite of /repo (command of /root/.vp/BASELINE.json) and compares with its stable_pass list
export GOFLAGS=-mod=mod GOPROXY=off GOSUMDB=off
OUT=$(mktemp /tmp/baseline.XXXXXX.json)
for m in $(cat /w/out/gomods.txt); do MF=$(cd /repo/$m && . /w/out/goenv.sh && gomodflag); (cd /repo/$m && go test $MF -json -vet=off -count=1 -timeout 25m ./...); done > $OUT 2>/dev/null
python3 - "$OUT" <<'PY'
import json,sys
b=json.load(open('/root/.vp/BASELINE.json'))
stable=b['stable_pass']
if isinstance(stable,str): stable=eval(stable)
res={}
for l in open(sys.argv[1]):
    try: e=json.loads(l)
    except Exception: continue
    if e.get('Test') and e.get('Action') in ('pass','fail','skip'):
        res[e['Package']+'::'+e['Test']]=e['Action']
bad=[t for t in stable if res.get(t)!='pass']
print("baseline: %d/%d stable tests pass"%(len(stable)-len(bad),len(stable)))
for t in bad[:20]: print("  NOT PASSING:",t,res.get(t))
sys.exit(1 if bad else 0)
PY
rc=$?; rm -f $OUT; exit $rc
