#!/bin/bash
# tools/mk_wave.sh <suffix> <PID>...  -> for each property a scratch worktree and a prompt that lists the kept changes
# of that property (so that the next author produces a different one) and asks for fault/timing/interleaving triggers.
set -eu
SFX="$1"; shift
V="$(cd "$(dirname "$0")/.." && pwd)"
for PID in "$@"; do
  "$V/tools/mk_mut.sh" "$PID" "$SFX" > /dev/null
  python3 - "$V" "$PID" "/tmp/mut/prompt-$PID-$SFX.txt" <<'PY'
import json,sys,glob
v,pid,pf=sys.argv[1:4]
prev=[]
for m in sorted(glob.glob(v+'/seeded/'+pid+'-*/meta.json')):
    prev.append(json.load(open(m)).get('what_breaks','')[:200].replace('"',"'"))
t=open(pf).read()
anchor='Prefer changes inside the files named in the property\'s "anchors".'
extra=''
if prev:
    extra='Other people already produced these changes for the same property, so produce a DIFFERENT one, in a different function and with a different trigger: '+' || '.join('"%s"'%p for p in prev)+'. '
extra+='Prefer a change whose manifestation depends on a fault (error, timeout, connection loss, crash, restart, leader change, lagging watch) at a particular moment, on timing (cache TTLs, periodic loops, time-outs), on an interleaving of goroutines at statement level, or on a longer history of operations - not on an unusual input value alone, and not on a memory-level data race inside a library call. '
assert anchor in t
t=t.replace(anchor, extra+anchor,1)
open(pf,'w').write(t)
PY
  echo "/tmp/mut/prompt-$PID-$SFX.txt"
done
