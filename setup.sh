#!/bin/bash
# Builds the coordinator and warms the go1.26.8 build cache by building the
# worker once from /repo's current tree (offline; nothing is fetched).
set -e
HERE="$(cd "$(dirname "${BASH_SOURCE[0]}")" && pwd)"
export GOFLAGS=-mod=mod GOPROXY=off GOSUMDB=off GOTOOLCHAIN=local CGO_ENABLED=0
mkdir -p "$HERE/.work/bin" "$HERE/evidence" "$HERE/replays"
cd "$HERE/harness"
go1.26.8 build -o "$HERE/.work/bin/kgcheck" ./cmd/kgcheck
cd "$HERE"
KG_VERIF="$HERE" "$HERE/.work/bin/kgcheck" --build-only C08
