module kgsim

go 1.26.8

require (
	github.com/anishathalye/porcupine v1.3.0
	github.com/kubewharf/apiserver-runtime v0.0.0
	github.com/kubewharf/kubegateway v0.0.0
	k8s.io/api v0.18.10
	k8s.io/apimachinery v0.18.19
	k8s.io/apiserver v0.18.10
	k8s.io/client-go v0.18.10
	k8s.io/component-base v0.18.10
	kgsimhook v0.0.0
)

require (
	cloud.google.com/go v0.46.3 // indirect
	github.com/Azure/go-autorest/autorest v0.9.0 // indirect
	github.com/Azure/go-autorest/autorest/adal v0.5.0 // indirect
	github.com/Azure/go-autorest/autorest/date v0.1.0 // indirect
	github.com/Azure/go-autorest/logger v0.1.0 // indirect
	github.com/Azure/go-autorest/tracing v0.5.0 // indirect
	github.com/NYTimes/gziphandler v0.0.0-20170623195520-56545f4a5d46 // indirect
	github.com/PuerkitoBio/purell v1.1.1 // indirect
	github.com/PuerkitoBio/urlesc v0.0.0-20170810143723-de5bf2ad4578 // indirect
	github.com/asaskevich/govalidator v0.0.0-20190424111038-f61b66f89f4a // indirect
	github.com/beorn7/perks v1.0.1 // indirect
	github.com/blang/semver v3.5.0+incompatible // indirect
	github.com/coreos/go-oidc v2.1.0+incompatible // indirect
	github.com/coreos/go-systemd v0.0.0-20190321100706-95778dfbb74e // indirect
	github.com/coreos/pkg v0.0.0-20180928190104-399ea9e2e55f // indirect
	github.com/davecgh/go-spew v1.1.1 // indirect
	github.com/dgrijalva/jwt-go v3.2.0+incompatible // indirect
	github.com/docker/distribution v2.7.1+incompatible // indirect
	github.com/docker/docker v0.7.3-0.20190327010347-be7ac8be2ae0 // indirect
	github.com/emicklei/go-restful v2.9.5+incompatible // indirect
	github.com/evanphx/json-patch v4.9.0+incompatible // indirect
	github.com/go-openapi/analysis v0.19.5 // indirect
	github.com/go-openapi/errors v0.19.2 // indirect
	github.com/go-openapi/jsonpointer v0.19.3 // indirect
	github.com/go-openapi/jsonreference v0.19.3 // indirect
	github.com/go-openapi/loads v0.19.4 // indirect
	github.com/go-openapi/runtime v0.19.4 // indirect
	github.com/go-openapi/spec v0.19.3 // indirect
	github.com/go-openapi/strfmt v0.19.3 // indirect
	github.com/go-openapi/swag v0.19.5 // indirect
	github.com/go-openapi/validate v0.19.5 // indirect
	github.com/go-stack/stack v1.8.0 // indirect
	github.com/gobeam/stringy v0.0.5 // indirect
	github.com/gogo/protobuf v1.3.2 // indirect
	github.com/golang/groupcache v0.0.0-20190129154638-5b532d6fd5ef // indirect
	github.com/golang/protobuf v1.3.4 // indirect
	github.com/google/go-cmp v0.3.1 // indirect
	github.com/google/gofuzz v1.1.0 // indirect
	github.com/google/uuid v1.3.1 // indirect
	github.com/googleapis/gnostic v0.3.1 // indirect
	github.com/gophercloud/gophercloud v0.1.0 // indirect
	github.com/grpc-ecosystem/go-grpc-prometheus v1.2.0 // indirect
	github.com/hashicorp/golang-lru v0.5.1 // indirect
	github.com/imdario/mergo v0.3.6 // indirect
	github.com/json-iterator/go v1.1.8 // indirect
	github.com/libp2p/go-reuseport v0.4.0 // indirect
	github.com/mailru/easyjson v0.7.0 // indirect
	github.com/matttproud/golang_protobuf_extensions v1.0.1 // indirect
	github.com/mitchellh/mapstructure v1.1.2 // indirect
	github.com/modern-go/concurrent v0.0.0-20180306012644-bacd9c7ef1dd // indirect
	github.com/modern-go/reflect2 v1.0.1 // indirect
	github.com/munnerz/goautoneg v0.0.0-20191010083416-a7dc8b61c822 // indirect
	github.com/mxk/go-flowrate v0.0.0-20140419014527-cca7078d478f // indirect
	github.com/opencontainers/go-digest v1.0.0-rc1 // indirect
	github.com/pires/go-proxyproto v0.6.2 // indirect
	github.com/pkg/errors v0.9.1 // indirect
	github.com/pquerna/cachecontrol v0.0.0-20171018203845-0dec1b30a021 // indirect
	github.com/prometheus/client_golang v1.0.0 // indirect
	github.com/prometheus/client_model v0.2.0 // indirect
	github.com/prometheus/common v0.4.1 // indirect
	github.com/prometheus/procfs v0.0.2 // indirect
	github.com/robfig/cron v1.1.0 // indirect
	github.com/spf13/cobra v1.1.3 // indirect
	github.com/spf13/pflag v1.0.5 // indirect
	github.com/zoumo/golib v0.0.0-20211216092524-c9bb48ad7bef // indirect
	github.com/zoumo/goset v0.2.0 // indirect
	go.etcd.io/etcd v0.0.0-20191023171146-3cf2f69b5738 // indirect
	go.mongodb.org/mongo-driver v1.1.2 // indirect
	go.uber.org/atomic v1.4.0 // indirect
	go.uber.org/multierr v1.1.0 // indirect
	go.uber.org/zap v1.10.0 // indirect
	golang.org/x/crypto v0.0.0-20210616213533-5ff15b29337e // indirect
	golang.org/x/net v0.0.0-20211209124913-491a49abca63 // indirect
	golang.org/x/oauth2 v0.0.0-20190604053449-0f29369cfe45 // indirect
	golang.org/x/sync v0.0.0-20210220032951-036812b2e83c // indirect
	golang.org/x/sys v0.0.0-20220422013727-9388b58f7150 // indirect
	golang.org/x/term v0.0.0-20201126162022-7de9c90e9dd1 // indirect
	golang.org/x/text v0.3.6 // indirect
	golang.org/x/time v0.0.0-20190308202827-9d24e82272b4 // indirect
	golang.org/x/tools v0.0.0-20210106214847-113979e3529a // indirect
	google.golang.org/genproto v0.0.0-20191108220845-16a3f7862a1a // indirect
	google.golang.org/grpc v1.26.0 // indirect
	gopkg.in/inf.v0 v0.9.1 // indirect
	gopkg.in/natefinch/lumberjack.v2 v2.0.0 // indirect
	gopkg.in/square/go-jose.v2 v2.2.2 // indirect
	gopkg.in/yaml.v2 v2.4.0 // indirect
	k8s.io/apiextensions-apiserver v0.18.10 // indirect
	k8s.io/cloud-provider v0.18.10 // indirect
	k8s.io/cluster-bootstrap v0.18.10 // indirect
	k8s.io/klog v1.0.0 // indirect
	k8s.io/kube-aggregator v0.18.10 // indirect
	k8s.io/kube-openapi v0.0.0-20200410145947-61e04a5be9a6 // indirect
	k8s.io/kubernetes v1.18.10 // indirect
	k8s.io/utils v0.0.0-20200324210504-a9aa75ae1b89 // indirect
	sigs.k8s.io/apiserver-network-proxy/konnectivity-client v0.0.7 // indirect
	sigs.k8s.io/controller-runtime v0.6.0 // indirect
	sigs.k8s.io/structured-merge-diff/v3 v3.0.1 // indirect
	sigs.k8s.io/yaml v1.2.0 // indirect
)

replace (
	github.com/go-logr/logr => github.com/go-logr/logr v0.1.0
	github.com/go-logr/zapr => github.com/go-logr/zapr v0.1.0
	github.com/golang/groupcache => github.com/golang/groupcache v0.0.0-20160516000752-02826c3e7903
	github.com/golang/protobuf => github.com/golang/protobuf v1.3.2
	github.com/google/go-cmp => github.com/google/go-cmp v0.3.0
	github.com/googleapis/gnostic => github.com/googleapis/gnostic v0.1.0
	github.com/gorilla/websocket => github.com/gorilla/websocket v1.4.0
	github.com/grpc-ecosystem/go-grpc-middleware => github.com/grpc-ecosystem/go-grpc-middleware v1.0.1-0.20190118093823-f849b5445de4
	github.com/imdario/mergo => github.com/imdario/mergo v0.3.5
	github.com/konsorten/go-windows-terminal-sequences => github.com/konsorten/go-windows-terminal-sequences v1.0.1
	github.com/kubernetes-incubator/reference-docs => github.com/kubernetes-sigs/reference-docs v0.0.0-20170929004150-fcf65347b256
	github.com/kubewharf/apiserver-runtime => /repo/staging/src/github.com/kubewharf/apiserver-runtime
	github.com/kubewharf/kubegateway => /repo
	github.com/markbates/inflect => github.com/markbates/inflect v1.0.4
	github.com/onsi/gomega => github.com/onsi/gomega v1.7.0
	github.com/pkg/errors => github.com/pkg/errors v0.9.1
	github.com/tmc/grpc-websocket-proxy => github.com/tmc/grpc-websocket-proxy v0.0.0-20170815181823-89b8d40f7ca8
	go.uber.org/atomic => go.uber.org/atomic v1.3.2
	golang.org/x/net => golang.org/x/net v0.0.0-20211209124913-491a49abca63
	golang.org/x/sys => golang.org/x/sys v0.0.0-20190813064441-fde4db37ae7a
	golang.org/x/tools => golang.org/x/tools v0.0.0-20190821162956-65e3620a7ae7
	golang.org/x/xerrors => golang.org/x/xerrors v0.0.0-20190717185122-a985d3407aa7
	gopkg.in/check.v1 => gopkg.in/check.v1 v1.0.0-20180628173108-788fd7840127
	k8s.io/api => k8s.io/api v0.18.10
	k8s.io/apiextensions-apiserver => k8s.io/apiextensions-apiserver v0.18.10
	k8s.io/apimachinery => k8s.io/apimachinery v0.18.19
	k8s.io/apiserver => github.com/kubewharf/apiserver v0.0.0-20230515081716-5cd2041a3c4d
	k8s.io/cli-runtime => k8s.io/cli-runtime v0.18.10
	k8s.io/client-go => k8s.io/client-go v0.18.10
	k8s.io/cloud-provider => k8s.io/cloud-provider v0.18.10
	k8s.io/cluster-bootstrap => k8s.io/cluster-bootstrap v0.18.10
	k8s.io/code-generator => k8s.io/code-generator v0.18.18-rc.0
	k8s.io/component-base => k8s.io/component-base v0.18.10
	k8s.io/cri-api => k8s.io/cri-api v0.18.18-rc.0
	k8s.io/csi-translation-lib => k8s.io/csi-translation-lib v0.18.10
	k8s.io/gengo => k8s.io/gengo v0.0.0-20200114144118-36b2048a9120
	k8s.io/heapster => k8s.io/heapster v1.2.0-beta.1
	k8s.io/klog => k8s.io/klog v1.0.0
	k8s.io/kube-aggregator => k8s.io/kube-aggregator v0.18.10
	k8s.io/kube-controller-manager => k8s.io/kube-controller-manager v0.18.10
	k8s.io/kube-openapi => k8s.io/kube-openapi v0.0.0-20200410145947-61e04a5be9a6
	k8s.io/kube-proxy => k8s.io/kube-proxy v0.18.10
	k8s.io/kube-scheduler => k8s.io/kube-scheduler v0.18.10
	k8s.io/kubectl => k8s.io/kubectl v0.18.10
	k8s.io/kubelet => k8s.io/kubelet v0.18.10
	k8s.io/kubernetes => k8s.io/kubernetes v1.18.10
	k8s.io/legacy-cloud-providers => k8s.io/legacy-cloud-providers v0.18.10
	k8s.io/metrics => k8s.io/metrics v0.18.10
	k8s.io/repo-infra => k8s.io/repo-infra v0.0.1-alpha.1
	k8s.io/sample-apiserver => k8s.io/sample-apiserver v0.18.10
	k8s.io/system-validators => k8s.io/system-validators v1.0.4
	k8s.io/utils => k8s.io/utils v0.0.0-20200324210504-a9aa75ae1b89
	kgsimhook => ./simhook
	sigs.k8s.io/controller-runtime => sigs.k8s.io/controller-runtime v0.6.0
)
