// Package tb is the token-bucket world (C06): the gateway's local limiter
// stack on the bubble's fake clock under a drawn arrival process.
package tb

import (
	"context"
	"fmt"
	"math"
	"strings"
	"time"

	proxyv1alpha1 "github.com/kubewharf/kubegateway/pkg/apis/proxy/v1alpha1"
	"github.com/kubewharf/kubegateway/pkg/flowcontrols"

	"kgsim/sim"
)

const eps = 1e-6 // tokens; absorbs float rounding of the underlying limiter, nothing more

type arrival struct {
	at time.Duration // since run start
	ok bool
}

// RunC06 must be called inside a synctest bubble.
func RunC06(r *sim.Run) {
	t := r.T
	reconf := strings.Contains(r.Profile, "reconf")
	drawQB := func() (int32, int32) {
		var qps int32
		switch t.Draw(4) {
		case 0:
			qps = int32(t.Range(1, 10))
		case 1:
			qps = int32(t.Range(10, 100))
		case 2:
			qps = int32(t.Range(100, 1000))
		default:
			qps = int32([]int{1, 2, 5, 10, 50, 100, 500, 1000}[t.Draw(8)])
		}
		burst := qps + int32(t.Draw(int(qps)*2+1))
		if t.Draw(4) == 0 {
			burst = qps
		}
		return qps, burst
	}
	qps, burst := drawQB()
	ctx, cancel := context.WithCancel(context.Background())
	lim := flowcontrols.NewUpstreamLimiter(ctx, "c6", "", nil)
	// the schema's limit strategy: none, local, or a global one with a global bucket next to
	// the local one. This limiter runs in local mode, where the local bucket is the one that
	// counts whatever the strategy says.
	strat := []proxyv1alpha1.LimitStrategy{"", "", proxyv1alpha1.LocalLimit, proxyv1alpha1.GlobalAllocateLimit, proxyv1alpha1.GlobalCountLimit}[t.Draw(5)]
	mk := func(q, b int32) proxyv1alpha1.FlowControl {
		sc := proxyv1alpha1.FlowControlSchema{
			Name:     "tb",
			Strategy: strat,
			FlowControlSchemaConfiguration: proxyv1alpha1.FlowControlSchemaConfiguration{
				TokenBucket: &proxyv1alpha1.TokenBucketFlowControlSchema{QPS: q, Burst: b},
			},
		}
		if strat == proxyv1alpha1.GlobalAllocateLimit || strat == proxyv1alpha1.GlobalCountLimit {
			sc.GlobalTokenBucket = &proxyv1alpha1.TokenBucketFlowControlSchema{QPS: q * 3, Burst: b * 3}
		}
		return proxyv1alpha1.FlowControl{Schemas: []proxyv1alpha1.FlowControlSchema{sc}}
	}
	if strat != "" {
		r.Probe("strategy_" + string(strat))
	}
	lim.Sync(mk(qps, burst))
	start := time.Now()
	defer func() {
		lim.Sync(proxyv1alpha1.FlowControl{}) // stops the meters
		cancel()
		r.SimSecs = time.Since(start).Seconds()
	}()

	nCalls := t.Range(20, 400)
	var stretch []arrival
	lastCall := time.Duration(-1)
	admittedTotal, refusedTotal, stretches, idleChecks := 0, 0, 0, 0
	pendingIdle := -1 // admissions still owed after an idle period

	checkStretch := func(q, b int32) {
		stretches++
		// admissions i<j: j-i+1 <= burst + qps*(tj-ti) + eps
		var adm []time.Duration
		for _, a := range stretch {
			if a.ok {
				adm = append(adm, a.at)
			}
		}
		r.Checked("upper_bound_windows")
		for i := 0; i < len(adm); i++ {
			for j := i; j < len(adm); j++ {
				T := (adm[j] - adm[i]).Seconds()
				if float64(j-i+1) > float64(b)+float64(q)*T+eps {
					r.Violate("too_many_admitted", fmt.Sprintf("qps=%d burst=%d", q, b),
						"qps=%d burst=%d: %d requests admitted within %.9fs (from t=%v to t=%v), bound %.6f", q, b, j-i+1, T, adm[i], adm[j], float64(b)+float64(q)*T)
					return
				}
			}
		}
	}

	for c := 0; c < nCalls && !r.Violated(); c++ {
		r.Step = c
		// choose the gap before this call
		var gap time.Duration
		switch t.Pick([]int{8, 4, 3, 2, 1}) {
		case 0:
			gap = 0 // burst: same instant
		case 1:
			k := t.Range(1, 5)
			gap = time.Duration(float64(k) / float64(qps) * 1e9) // exact k/qps boundary
			if t.Draw(3) == 0 {
				gap += time.Duration(t.Draw(3)) - 1 // one nanosecond either side
				if gap < 0 {
					gap = 0
				}
			}
		case 2:
			gap = time.Duration(t.Range(1, 2000)) * time.Microsecond
		case 3:
			gap = time.Duration(t.Range(1, 3000)) * time.Millisecond
		case 4:
			gap = time.Duration(t.Range(1, 120)) * time.Second
		}
		if reconf && t.Draw(40) == 0 {
			checkStretch(qps, burst)
			qps, burst = drawQB()
			lim.Sync(mk(qps, burst))
			r.Logf("resize qps=%d burst=%d", qps, burst)
			stretch = nil
			pendingIdle = -1
			lastCall = -1
			r.Probe("resized")
		}
		if gap > 0 {
			time.Sleep(gap)
		}
		now := time.Since(start)
		if gap > 0 && lastCall >= 0 {
			idle := (now - lastCall).Seconds()
			owed := int(math.Floor(float64(qps)*idle - eps))
			if owed > int(burst) {
				owed = int(burst)
			}
			if owed > 0 {
				pendingIdle = owed
				idleChecks++
			} else {
				pendingIdle = -1
			}
		}
		fc := lim.GetOrDefault("tb")
		ok := fc.TryAcquire()
		if !ok && pendingIdle > 0 {
			// epsilon is a token amount: the bucket may be short of a whole token
			// by float rounding. Waiting for eps tokens' worth of time (>= 1ns)
			// must be enough.
			d := time.Duration(math.Ceil(eps / float64(qps) * 1e9))
			if d < 1 {
				d = 1
			}
			time.Sleep(d)
			now = time.Since(start)
			ok = fc.TryAcquire()
			r.Probe("eps_retry")
		}
		if ok {
			fc.Release()
			admittedTotal++
		} else {
			refusedTotal++
		}
		stretch = append(stretch, arrival{now, ok})
		lastCall = now
		if pendingIdle > 0 {
			r.Checked("not_stricter_after_idle")
			if !ok {
				r.Violate("stricter_than_configured", fmt.Sprintf("qps=%d burst=%d", qps, burst),
					"qps=%d burst=%d: after an idle period a request at t=%v was refused although %d more admissions were due", qps, burst, now, pendingIdle)
				break
			}
			pendingIdle--
		}
		r.Logf("t=%d ok=%v", int64(now), ok)
	}
	if !r.Violated() {
		checkStretch(qps, burst)
	}
	r.ProbeN("admitted", admittedTotal)
	r.ProbeN("refused", refusedTotal)
	r.ProbeN("idle_checks", idleChecks)
	r.ProbeN("stretches", stretches)
	r.Nontrivial = admittedTotal > 0 && refusedTotal > 0
	r.Sample = map[string]interface{}{"qps": qps, "burst": burst, "calls": nCalls, "admitted": admittedTotal, "refused": refusedTotal}
}
