package tb

import (
	"context"
	"fmt"
	"strings"
	"testing/synctest"

	proxyv1alpha1 "github.com/kubewharf/kubegateway/pkg/apis/proxy/v1alpha1"
	"github.com/kubewharf/kubegateway/pkg/flowcontrols"

	"kgsim/sim"
)

// RunC06I: several requests hit a token-bucket schema at the same fake instant
// - among them the very first requests of a freshly created or freshly retyped
// schema - interleaved at statement granularity with each other and with a
// reconfiguration. No time passes, so at most burst requests may be admitted per
// bucket that existed (a reconfiguration that changes qps or burst swaps in a
// fresh bucket, C06 allows one extra burst for it).
func RunC06I(r *sim.Run) {
	t := r.T
	qps := int32(t.Range(1, 5))
	burst := qps + int32(t.Draw(4))
	ctx, cancel := context.WithCancel(context.Background())
	defer cancel()
	lim := flowcontrols.NewUpstreamLimiter(ctx, "c6i", "", nil)
	mk := func(q, b int32) proxyv1alpha1.FlowControl {
		var fc proxyv1alpha1.FlowControl
		if q > 0 {
			s := proxyv1alpha1.FlowControlSchema{Name: "tb"}
			s.TokenBucket = &proxyv1alpha1.TokenBucketFlowControlSchema{QPS: q, Burst: b}
			fc.Schemas = append(fc.Schemas, s)
		}
		// a bystander keeps the spec non-empty
		by := proxyv1alpha1.FlowControlSchema{Name: "by"}
		by.MaxRequestsInflight = &proxyv1alpha1.MaxRequestsInflightFlowControlSchema{Max: 1}
		fc.Schemas = append(fc.Schemas, by)
		return fc
	}
	lim.Sync(mk(qps, burst))
	defer lim.Sync(proxyv1alpha1.FlowControl{})

	sc := sim.NewSched(r)
	sc.Quiesce = synctest.Wait
	sc.Enabled = func(site string) bool {
		return strings.HasPrefix(site, "flowcontrol.go") || strings.HasPrefix(site, "flowcontrol_wrapper.go") || strings.HasPrefix(site, "limiter.go")
	}
	sc.Install()
	defer sc.Uninstall()

	buckets := int64(burst) // sum of the bursts of all buckets that existed
	admitted := 0
	nThreads := t.Range(2, 6)
	for i := 0; i < nThreads; i++ {
		i := i
		n := t.Range(1, 3)
		sc.Go(fmt.Sprintf("req%d", i), func() {
			for k := 0; k < n; k++ {
				sc.Boundary()
				fc := lim.GetOrDefault("tb")
				if fc.Type() != proxyv1alpha1.TokenBucket {
					continue // the schema is absent at this moment (exempt default)
				}
				if fc.TryAcquire() {
					admitted++
					r.Logf("req%d admitted (%d so far)", i, admitted)
				} else {
					r.Logf("req%d refused", i)
				}
			}
		})
	}
	if t.Draw(2) == 0 {
		nq := int32(t.Range(1, 5))
		nb := nq + int32(t.Draw(4))
		if nq != qps || nb != burst {
			buckets += int64(nb)
		}
		sc.Go("cfg", func() {
			sc.Boundary()
			lim.Sync(mk(nq, nb))
			r.Logf("reconfigured to qps=%d burst=%d", nq, nb)
		})
	}
	style := t.Draw(2)
	why := sc.RunAll(3000, style, nil)
	for _, th := range sc.Threads() {
		if th.Panic != nil {
			r.Violate("panic", th.PanicTop, "thread %s panicked: %v", th.Name, th.Panic)
			return
		}
	}
	if why != "" {
		if why == "deadlock" {
			r.Violate("deadlock", "c06i", "all threads blocked: %s", sc.Describe())
		} else {
			r.Inconclusive("step budget: " + why)
		}
		return
	}
	r.Checked("same_instant_admissions_within_burst")
	if int64(admitted) > buckets {
		r.Violate("too_many_admitted", fmt.Sprintf("same-instant qps=%d burst=%d", qps, burst), "%d requests were admitted at one instant; the buckets that existed allow %d (first: qps %d burst %d)", admitted, buckets, qps, burst)
		return
	}
	r.ProbeN("admitted", admitted)
	r.ProbeN("yields", sc.Yields)
	r.Nontrivial = admitted > 0 && sc.Yields > 10
	r.Sample = map[string]interface{}{"qps": qps, "burst": burst, "threads": nThreads, "admitted": admitted, "allowed": buckets}
}
