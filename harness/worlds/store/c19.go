// Package store is the C19 world: the API-backed limiter store over the
// simulated control-plane API with faults and crash points.
package store

import (
	"fmt"
	mathrand "math/rand"
	"sort"
	"strings"
	"testing/synctest"
	"time"

	apierrors "k8s.io/apimachinery/pkg/api/errors"
	metav1 "k8s.io/apimachinery/pkg/apis/meta/v1"
	"k8s.io/apimachinery/pkg/labels"
	utilruntime "k8s.io/apimachinery/pkg/util/runtime"

	"github.com/kubewharf/kubegateway/pkg/apis/proxy/v1alpha1"
	_interface "github.com/kubewharf/kubegateway/pkg/ratelimiter/store/interface"
	k8sstore "github.com/kubewharf/kubegateway/pkg/ratelimiter/store/k8s"
	"github.com/kubewharf/kubegateway/pkg/ratelimiter/util"

	"kgsim/sim"
	"kgsim/simapi"
)

type op struct {
	kind   string // save | delete | delup | flush | stop
	name   string
	up     string
	token  int32
	call   int64
	ret    int64 // 0 while in flight
	acked  bool
	err    string
	thread int
	wfrom  int // length of the API's write log when the call began
}

func writesOf(ws []simapi.WriteRec, name string) string {
	var parts []string
	for _, w := range ws {
		if w.Name == name {
			who := w.Node
			if who == "" {
				who = "foreign"
			}
			parts = append(parts, fmt.Sprintf("%s=%d", who, tokenOf(w.Obj)))
		}
	}
	return strings.Join(parts, " ")
}

func (o *op) String() string {
	s := o.kind
	switch o.kind {
	case "save":
		s = fmt.Sprintf("save(%s=%d)", o.name, o.token)
	case "delete":
		s = fmt.Sprintf("delete(%s)", o.name)
	case "delup":
		s = fmt.Sprintf("deleteUpstream(%s)", o.up)
	}
	st := "inflight"
	if o.ret > 0 {
		if o.acked {
			st = "ok"
		} else {
			st = "err:" + o.err
		}
	}
	return fmt.Sprintf("[t%d %d-%d %s %s]", o.thread, o.call, o.ret, s, st)
}

func cond(name, up string, token int32) *v1alpha1.RateLimitCondition {
	inst := name[strings.Index(name, ".")+1:]
	return &v1alpha1.RateLimitCondition{
		ObjectMeta: metav1.ObjectMeta{Name: name, Labels: map[string]string{"proxy.kubegateway.io/ratelimitcondition.instance": inst}},
		Spec: v1alpha1.RateLimitSpec{UpstreamCluster: up, Instance: inst,
			LimitItemConfigurations: []v1alpha1.RateLimitItemConfiguration{{Name: "fc", Strategy: v1alpha1.GlobalAllocateLimit,
				LimitItemDetail: v1alpha1.LimitItemDetail{MaxRequestsInflight: &v1alpha1.MaxRequestsInflightFlowControlSchema{Max: token}}}}},
		Status: v1alpha1.RateLimitStatus{LimitItemStatuses: []v1alpha1.RateLimitItemStatus{{Name: "fc", RequestLevel: token % 100}}},
	}
}

func tokenOf(c *v1alpha1.RateLimitCondition) int32 {
	if c == nil || len(c.Spec.LimitItemConfigurations) != 1 || c.Spec.LimitItemConfigurations[0].MaxRequestsInflight == nil {
		return -1
	}
	return c.Spec.LimitItemConfigurations[0].MaxRequestsInflight.Max
}

// RunC19 must run inside a synctest bubble.
func RunC19(r *sim.Run) {
	t := r.T
	mathrand.Seed(int64(t.Draw(1 << 30)))
	faultFree := strings.Contains(r.Profile, "nofault")
	N := t.Range(2, 3)
	s := t.Draw(N)
	periodic := t.Draw(2) == 1
	if strings.Contains(r.Profile, "wt") {
		periodic = false
	}
	if strings.Contains(r.Profile, "periodic") {
		periodic = true
	}
	var period time.Duration
	if periodic {
		period = []time.Duration{200 * time.Millisecond, time.Second, 5 * time.Second}[t.Draw(3)]
	}
	faultDen := 0 // 1/faultDen of released points get a fault
	if !faultFree {
		faultDen = []int{0, 25, 8, 4}[t.Draw(4)]
	}
	yieldsOn := t.Draw(3) == 0

	// upstream names: two of shard s, one of another shard
	var mine, others []string
	for i := 0; len(mine) < 2 || len(others) < 1; i++ {
		u := fmt.Sprintf("up%d", i)
		if util.GetShardID(u, N) == s {
			if len(mine) < 2 {
				mine = append(mine, u)
			}
		} else if len(others) < 1 {
			others = append(others, u)
		}
	}
	var names []string
	upOf := map[string]string{}
	for _, u := range append(append([]string{}, mine...), others...) {
		for j := 0; j < 2; j++ {
			n := fmt.Sprintf("%s.i%d", u, j)
			names = append(names, n)
			upOf[n] = u
		}
	}

	sc := sim.NewSched(r)
	sc.Quiesce = synctest.Wait
	sc.Enabled = func(site string) bool { return yieldsOn && strings.HasPrefix(site, "cache_store.go") }
	sc.Install()
	defer sc.Uninstall()

	api := simapi.NewCondAPI(sc)
	dead := false
	// a panic in one of the store's own goroutines is, in production, a crash of the holder
	utilruntime.ReallyCrash = false
	holderPanic := ""
	utilruntime.PanicHandlers = []func(interface{}){func(p interface{}) {
		if !dead {
			holderPanic = fmt.Sprint(p)
			dead = true
		}
	}}

	var token int32 = 100
	lastGen := map[string]int32{} // the value most recently generated for a name (a save may repeat it)
	tainted := map[string]bool{}
	var ops []*op
	var stamp int64 = 10

	// preload (fault free, before the store exists): objects of both shards
	pre := api.Client("pre", false)
	for _, n := range names {
		if t.Draw(3) == 0 {
			token++
			c := cond(n, upOf[n], token)
			if _, err := pre.Create(nil, c, metav1.CreateOptions{}); err != nil {
				r.Inconclusive("preload: " + err.Error())
				return
			}
			ops = append(ops, &op{kind: "save", name: n, up: upOf[n], token: token, call: 1, ret: 2, acked: true, thread: -1})
			lastGen[n] = token
			r.Logf("preload %s=%d", n, token)
		}
	}

	clientA := &simapi.Clientset{Cond: api.Client("A", true)}
	st := k8sstore.NewK8sCacheStore(clientA, period, s, N)
	// Load of the store under test is itself an operation under faults; run it fault-free here
	clientA.Cond.Parked = false
	if err := st.Load(); err != nil {
		r.Inconclusive("initial load: " + err.Error())
		return
	}
	clientA.Cond.Parked = true

	// programs
	nThreads := t.Range(1, 3)
	repeats := 0
	type prog struct{ ops []*op }
	progs := make([]prog, nThreads)
	for k := range progs {
		n := t.Range(1, 5)
		for j := 0; j < n; j++ {
			o := &op{thread: k}
			switch t.Pick([]int{12, 4, 2, 3}) {
			case 0:
				o.kind = "save"
				o.name = names[t.Draw(len(names))]
				o.up = upOf[o.name]
				if prev, ok := lastGen[o.name]; ok && util.GetShardID(o.up, N) == s && t.Draw(4) == 0 {
					// a report that changes nothing: the very value saved for this name before
					o.token = prev
					repeats++
				} else {
					token++
					o.token = token
					lastGen[o.name] = token
				}
			case 1:
				o.kind = "delete"
				o.name = names[t.Draw(len(names))]
				o.up = upOf[o.name]
			case 2:
				o.kind = "delup"
				o.up = mine[t.Draw(len(mine))]
			case 3:
				o.kind = "flush"
			}
			progs[k].ops = append(progs[k].ops, o)
		}
	}
	graceful := t.Draw(2) == 0
	crashStep := -1
	if !graceful {
		crashStep = t.Range(1, 60)
	}

	exec := func(o *op) {
		stamp++
		o.call = stamp
		o.wfrom = api.NWrites()
		ops = append(ops, o)
		var err error
		func() {
			defer func() {
				if p := recover(); p != nil {
					// panic in a request handler: answered 500 by the server's recovery
					err = fmt.Errorf("panic: %v", p)
					r.Probe("caller_panic_recovered")
				}
			}()
			switch o.kind {
			case "save":
				err = st.Save(o.up, cond(o.name, o.up, o.token))
			case "delete":
				err = st.Delete(o.up, o.name)
			case "delup":
				err = st.DeleteUpstream(o.up)
			case "flush":
				err = st.Flush()
			case "stop":
				err = st.Stop()
			}
		}()
		if dead {
			select {} // the holder crashed while this call was in progress
		}
		stamp++
		o.ret = stamp
		o.acked = err == nil
		if err != nil {
			o.err = firstWords(err.Error())
		}
		r.Logf("%v", o)
		// write-through: "acknowledged" means "already persisted": during the call this
		// store must itself have written the acknowledged value of that name to the API
		// (whatever another writer - a previous holder that has not noticed yet - did to
		// the name before or after)
		if period == 0 && o.kind == "save" && o.acked && util.GetShardID(o.up, N) == s {
			r.Checked("acknowledged_save_was_written_by_this_store")
			wrote := false
			for _, wr := range api.Writes(o.wfrom) {
				if wr.Node != "" && wr.Name == o.name && tokenOf(wr.Obj) == o.token {
					wrote = true
				}
			}
			if !wrote {
				r.Violate("acked_but_not_persisted", "write-through/no-write", "%v was acknowledged, but during the call this store wrote no object with that value to the API (writes of that name meanwhile: %s)", o, writesOf(api.Writes(o.wfrom), o.name))
			}
		}
	}
	for k := range progs {
		k := k
		sc.Go(fmt.Sprintf("caller%d", k), func() {
			for _, o := range progs[k].ops {
				sc.Boundary()
				exec(o)
			}
		})
	}
	stopperStarted := false
	stopped := false

	start := time.Now()
	step := 0
	for ; step < 900; step++ {
		r.Step = step
		sc.Settle()
		if dead {
			break
		}
		if crashStep >= 0 && step >= crashStep {
			dead = true
			r.Fault("crash")
			r.Logf("CRASH of the store holder at step %d", step)
			break
		}
		callersDone := true
		for _, th := range sc.Threads() {
			if strings.HasPrefix(th.Name, "caller") && !th.Done() {
				callersDone = false
			}
		}
		if callersDone && graceful && !stopperStarted {
			stopperStarted = true
			sc.Go("stopper", func() {
				for i := 0; i < 4 && !stopped; i++ {
					o := &op{kind: "stop", thread: 9}
					exec(o)
					if o.acked {
						stopped = true
					} else {
						time.Sleep(2 * time.Second) // stopLimitStoreWithRetry
					}
				}
			})
		}
		if callersDone && (!graceful || (stopperStarted && sc.AllDone())) {
			break
		}
		el := sc.Eligible()
		pts := sc.Points()
		nAct := len(el) + len(pts)
		if nAct == 0 {
			// everything sleeps (back-off, periodic sync): let time pass
			adv := sc.Advance(10 * time.Second)
			r.Logf("advance %v", adv)
			continue
		}
		// a foreign writer (the previous holder still flushing, an operator)
		// deletes or creates a condition of this shard behind the store's back
		if !faultFree && t.Draw(150) == 0 {
			n := names[t.Draw(len(names))]
			stamp++
			o := &op{kind: "delete", name: n, up: upOf[n], call: stamp, thread: -2, acked: true}
			if t.Draw(2) == 0 {
				api.DirectDelete(n)
			} else {
				token++
				o.kind, o.token = "save", token
				api.DirectPut(cond(n, upOf[n], token))
			}
			stamp++
			o.ret = stamp
			// the store is the only legitimate writer of its shard: what a foreign
			// write leaves behind is outside the statement, so the durability
			// clause is not evaluated for this name any more (load exactness is)
			tainted[n] = true
			r.Fault("foreign_write")
			r.Logf("foreign %v", o)
			continue
		}
		// with a small probability let time pass although something could run
		if period > 0 && t.Draw(12) == 0 {
			adv := sc.Advance(time.Duration(t.Range(1, 40)) * 50 * time.Millisecond)
			r.Logf("advance %v", adv)
			continue
		}
		k := t.Draw(nAct)
		if k < len(el) {
			sc.Resume(el[k])
			continue
		}
		p := pts[k-len(el)]
		out := simapi.Proceed
		if faultDen > 0 && t.Draw(faultDen) == 0 {
			if p.Kind == "api-pre" {
				// only answers a real API server can give whatever the state is:
				// conflict, transient failure, timeout. NotFound / AlreadyExists
				// must be true to be legal; they arise from the state itself
				// (racing operations, the foreign writer below).
				out = []int{simapi.ErrConflict, simapi.ErrTransient, simapi.ErrTimeout}[t.Draw(3)]
				if out == simapi.ErrConflict && (strings.Contains(p.Key, ":list:") || strings.Contains(p.Key, ":create:") || strings.Contains(p.Key, ":get:")) {
					out = simapi.ErrTransient
				}
			} else {
				out = simapi.ErrTimeout // applied, acknowledgement lost
				r.Fault("api_ack_lost")
			}
			if p.Kind == "api-pre" {
				r.Fault(simapi.OutcomeNames[out])
			}
		}
		r.Logf("release %s -> %s", p.Key, simapi.OutcomeNames[out])
		sc.Release(p, out)
	}
	if step >= 900 {
		r.Inconclusive("step budget exhausted")
		return
	}
	if holderPanic != "" {
		r.Probe("holder_crashed_by_own_panic")
		r.Logf("holder panic: %s", firstWords(holderPanic))
	}
	r.SimSecs = time.Since(start).Seconds()
	for _, th := range sc.Threads() {
		if th.Panic != nil {
			r.Violate("panic", th.PanicTop, "thread %s panicked: %v", th.Name, th.Panic)
			return
		}
	}

	// ---- faults stop; the survivors load ----------------------------------
	snap := map[string]int32{}
	for _, c := range api.Snapshot() {
		snap[c.Name] = tokenOf(c)
	}
	clientB := &simapi.Clientset{Cond: api.Client("B", false)}
	newStore := k8sstore.NewK8sCacheStore(clientB, 0, s, N)
	if err := newStore.Load(); err != nil {
		r.Violate("load_failed", "c19", "Load of the successor failed without faults: %v", err)
		return
	}
	otherShard := (s + 1) % N
	otherStore := k8sstore.NewK8sCacheStore(&simapi.Clientset{Cond: api.Client("C", false)}, 0, otherShard, N)
	if err := otherStore.Load(); err != nil {
		r.Violate("load_failed", "c19", "Load of the other shard's store failed without faults: %v", err)
		return
	}
	loaded := func(ls _interface.LimitStore) map[string]int32 {
		m := map[string]int32{}
		for _, c := range ls.List(labels.Everything()) {
			m[c.Name] = tokenOf(c)
		}
		return m
	}
	got := loaded(newStore)
	gotOther := loaded(otherStore)

	// expand deleteUpstream into per-name deletes
	type eff struct {
		o      *op
		absent bool
		token  int32
	}
	byName := map[string][]eff{}
	var flushes []*op
	for _, o := range ops {
		switch o.kind {
		case "save":
			byName[o.name] = append(byName[o.name], eff{o, false, o.token})
		case "delete":
			byName[o.name] = append(byName[o.name], eff{o, true, 0})
		case "delup":
			for _, n := range names {
				if upOf[n] == o.up {
					byName[n] = append(byName[n], eff{o, true, 0})
				}
			}
		case "flush", "stop":
			flushes = append(flushes, o)
		}
	}
	durable := func(e eff) bool {
		if !e.o.acked {
			return false
		}
		if e.absent || period == 0 || e.o.thread < 0 {
			return true // deletes go to the API first; write-through saves are persisted when acknowledged
		}
		for _, f := range flushes {
			if f.acked && f.call > e.o.ret {
				return true
			}
		}
		return false
	}
	allNames := append([]string{}, names...)
	sort.Strings(allNames)
	for _, n := range allNames {
		sh := util.GetShardID(upOf[n], N)
		apiTok, inAPI := snap[n]
		if sh == s {
			r.Checked("durability")
			effs := byName[n]
			okVal := false
			var why []string
			// candidate: initial absence
			cands := append([]eff{{o: &op{ret: 0, acked: true}, absent: true}}, effs...)
			for _, c := range cands {
				if c.absent != !inAPI || (!c.absent && c.token != apiTok) {
					continue
				}
				if c.o.ret == 0 && c.o.call > 0 {
					// in flight at the crash: may or may not have been applied
					okVal = true
					break
				}
				superseded := false
				for _, d := range effs {
					if d.o != c.o && durable(d) && d.o.call > c.o.ret {
						superseded = true
						why = append(why, fmt.Sprintf("%v is superseded by %v", c.o, d.o))
						break
					}
				}
				if !superseded {
					okVal = true
					break
				}
			}
			if !okVal && tainted[n] {
				okVal = true
				r.Probe("durability_skipped_foreign_write")
			}
			if !okVal {
				class := "acked_state_lost"
				if inAPI {
					known := false
					for _, e := range effs {
						if !e.absent && e.token == apiTok {
							known = true
						}
					}
					if !known {
						class = "garbage_value"
					} else {
						class = "stale_or_deleted_value_persisted"
						for _, w := range why {
							if strings.Contains(w, "delete") {
								class = "deleted_condition_reappeared"
							}
						}
					}
				}
				mode := "write-through"
				if period > 0 {
					mode = "periodic"
				}
				var hs []string
				for _, e := range effs {
					hs = append(hs, e.o.String())
				}
				apiDesc := "absent"
				if inAPI {
					apiDesc = fmt.Sprint(apiTok)
				}
				r.Violate(class, mode, "%s store shard %d/%d: after the holder %s the API holds %s=%s, which no acknowledged history explains (%s); operations on it: %s",
					mode, s, N, map[bool]string{true: "stopped gracefully", false: "crashed"}[graceful && stopped], n, apiDesc, strings.Join(why, "; "), strings.Join(hs, " "))
				return
			}
			// the successor loads exactly what is persisted
			r.Checked("load_exact")
			gt, have := got[n]
			if have != inAPI || (have && gt != apiTok) {
				r.Violate("load_mismatch", "own-shard", "successor of shard %d loaded %s=%v(present=%v) but the API holds %v(present=%v)", s, n, gt, have, apiTok, inAPI)
				return
			}
			if _, bad := gotOther[n]; bad {
				r.Violate("load_foreign_shard", "other-store", "store of shard %d loaded %s which belongs to shard %d", otherShard, n, sh)
				return
			}
		} else {
			r.Checked("shard_isolation")
			if _, bad := got[n]; bad {
				r.Violate("load_foreign_shard", "own-store", "successor of shard %d loaded %s which belongs to shard %d", s, n, sh)
				return
			}
			// the store under test must never have written a foreign-shard condition
			for _, e := range byName[n] {
				if e.o.thread >= 0 && !e.absent && inAPI && apiTok == e.token {
					r.Violate("foreign_shard_written", "c19", "store of shard %d persisted %s of shard %d", s, n, sh)
					return
				}
				if e.o.thread >= 0 && e.o.kind == "save" && e.o.acked {
					r.Violate("foreign_shard_acked", "c19", "store of shard %d acknowledged saving %s of shard %d", s, n, sh)
					return
				}
			}
			if sh == otherShard {
				gt, have := gotOther[n]
				if have != inAPI || (have && gt != apiTok) {
					r.Violate("load_mismatch", "other-shard", "store of shard %d loaded %s=%v(present=%v) but the API holds %v(present=%v)", otherShard, n, gt, have, apiTok, inAPI)
					return
				}
			}
		}
	}
	nAcked, nErr, nInflight := 0, 0, 0
	for _, o := range ops {
		if o.thread < 0 {
			continue
		}
		switch {
		case o.ret == 0:
			nInflight++
		case o.acked:
			nAcked++
		default:
			nErr++
		}
	}
	r.ProbeN("ops_acked", nAcked)
	r.ProbeN("ops_failed", nErr)
	r.ProbeN("ops_inflight_at_crash", nInflight)
	r.ProbeN("saves_repeating_an_earlier_value", repeats)
	if graceful && stopped {
		r.Probe("graceful_stop")
	}
	if period > 0 {
		r.Probe("periodic_mode")
	} else {
		r.Probe("write_through_mode")
	}
	r.ProbeN("yields", sc.Yields)
	r.Nontrivial = nAcked > 0 && (nInflight > 0 || nErr > 0 || (graceful && stopped))
	var hs []string
	for _, o := range ops {
		hs = append(hs, o.String())
	}
	r.Sample = map[string]interface{}{"shards": N, "shard": s, "periodic": period.String(), "graceful": graceful, "fault_rate": faultDen, "history": strings.Join(hs, " ")}
	_ = apierrors.IsNotFound
}

func firstWords(s string) string {
	if len(s) > 60 {
		s = s[:60]
	}
	return strings.ReplaceAll(s, "\n", " ")
}
