package gw

import (
	"bufio"
	"bytes"
	"context"
	"fmt"
	"io"
	apiequality "k8s.io/apimachinery/pkg/api/equality"
	mathrand "math/rand"
	"net"
	"net/http"
	"os"
	"runtime/debug"
	"sort"
	"strings"
	"sync"
	"sync/atomic"
	"syscall"
	"testing/synctest"
	"time"

	apierrors "k8s.io/apimachinery/pkg/api/errors"
	metav1 "k8s.io/apimachinery/pkg/apis/meta/v1"
	"k8s.io/apimachinery/pkg/runtime"
	utilrand "k8s.io/apimachinery/pkg/util/rand"
	"k8s.io/apimachinery/pkg/util/sets"
	utilwaitgroup "k8s.io/apimachinery/pkg/util/waitgroup"
	"k8s.io/apiserver/pkg/admission"
	"k8s.io/apiserver/pkg/authentication/user"
	apirequest "k8s.io/apiserver/pkg/endpoints/request"
	genericapiserver "k8s.io/apiserver/pkg/server"
	genericfilters "k8s.io/apiserver/pkg/server/filters"
	"k8s.io/client-go/kubernetes/scheme"

	"github.com/kubewharf/kubegateway/cmd/kube-gateway/app"
	proxyv1alpha1 "github.com/kubewharf/kubegateway/pkg/apis/proxy/v1alpha1"
	gatewayinformers "github.com/kubewharf/kubegateway/pkg/client/informers"
	gatewayfake "github.com/kubewharf/kubegateway/pkg/client/kubernetes/fake"
	gatewayscheme "github.com/kubewharf/kubegateway/pkg/client/kubernetes/scheme"
	"github.com/kubewharf/kubegateway/pkg/clusters"
	"github.com/kubewharf/kubegateway/pkg/clusters/features"
	"github.com/kubewharf/kubegateway/pkg/gateway/controllers"
	proxyauthenticator "github.com/kubewharf/kubegateway/pkg/gateway/proxy/authenticator"
	proxyauthorizer "github.com/kubewharf/kubegateway/pkg/gateway/proxy/authorizer"
	proxyoptions "github.com/kubewharf/kubegateway/pkg/gateway/proxy/options"
	upstreamclusteradmission "github.com/kubewharf/kubegateway/plugin/admission/upstreamcluster"

	"kgsim/sim"
)

// Options are the per-run knobs of a gateway (drawn from the tape by profiles).
type Options struct {
	TokenSuccessTTL, TokenFailureTTL time.Duration
	AuthzAllowTTL, AuthzDenyTTL      time.Duration
}

// Req is one client request and, later, its outcome.
type Req struct {
	ID      string
	Host    string
	Method  string
	Target  string      // request-target exactly as written on the wire
	Headers [][2]string // in order, casing as given
	Body    []byte
	Chunked bool
	Remote  string // client address "ip:port"

	StartStep     int
	StartBoundary int
	EndStep       int
	EndBoundary   int
	Done          bool
	Status        int
	RespHeader    http.Header
	RespBody      []byte
	ReadErr       string
	Aborted       bool
	Raw           bytes.Buffer // everything the client read off the wire
	conn          net.Conn
}

// EPState is the gateway's view of one endpoint at a boundary.
type EPState struct {
	Ready    bool
	Disabled bool
}

// Snap is the observable gateway state at a boundary.
type Snap struct {
	Step     int
	Now      time.Duration
	Clusters map[string]*ClusterSnap // by lower-cased cluster name
	Resolve  map[string]string       // probe host -> cluster name ("" = none)
}

type ClusterSnap struct {
	Endpoints map[string]EPState
	// Obj is the latest object version written to the API for this cluster at
	// that boundary (nil if deleted); Applied says whether the controller had
	// nothing pending.
	Obj     *proxyv1alpha1.UpstreamCluster
	Version int
}

// World is one simulated gateway with its control plane and upstreams.
type World struct {
	R    *sim.Run
	Sc   *sim.Sched
	Opts Options

	Ctl      *controllers.UpstreamClusterController
	Fake     *gatewayfake.Clientset
	informer gatewayinformers.SharedInformerFactory
	admit    admission.Interface
	admitInf gatewayinformers.SharedInformerFactory
	stopCh   chan struct{}

	gwLn  *pipeListener
	gwSrv *http.Server

	// CtlGate / AdmitGate hold back the watch streams of the controller's and
	// of the admission plugin's informer (fault watch_delay).
	CtlGate, AdmitGate *Gate

	mu       sync.Mutex
	Clusters map[string]*ClusterStub // by cluster name as written
	Stubs    map[string]*Stub        // by addr
	scripts  map[string]*Script
	upObs    []*UpObs
	logged   int
	reqs     []*Req
	snaps    []*Snap
	objs     map[string]*proxyv1alpha1.UpstreamCluster // latest written, by name
	versions map[string]int
	start    time.Time
	nextPort int
	Hosts    []string // hosts probed by Snapshot().Resolve
	panics   []string
	// Latency is the one-way delay of the simulated upstream network. It must
	// be > 0: with a zero-latency network the upstream's answer can overtake
	// the gateway's own transport goroutines (net/http closes the incoming
	// request body as soon as the response starts, while the outgoing write
	// loop still polls it for EOF), which no real network allows.
	Latency   time.Duration
	inTransit atomic.Int32
	// NoWait suspends the settling that follows every driver action.
	NoWait bool
}

var preOnce sync.Once

// PreBubble must be called before entering the synctest bubble: the shipped
// filters start two metric recorders through package-level sync.Once using
// wait.Forever (a channel created outside any bubble); firing them here keeps
// them outside.
func PreBubble() {
	preOnce.Do(func() {
		m := clusters.NewManager()
		c := newGenericConfig()
		_ = app.VerifBuildProxyHandlerChain(m, false)(http.NotFoundHandler(), c)
	})
}

func newGenericConfig() *genericapiserver.Config {
	c := &genericapiserver.Config{}
	c.Serializer = scheme.Codecs
	c.HandlerChainWaitGroup = new(utilwaitgroup.SafeWaitGroup)
	c.LongRunningFunc = genericfilters.BasicLongRunningRequestCheck(
		sets.NewString("watch", "proxy"),
		sets.NewString("attach", "exec", "proxy", "log", "portforward"),
	)
	c.RequestInfoResolver = &apirequest.RequestInfoFactory{
		APIPrefixes:          sets.NewString("api", "apis"),
		GrouplessAPIPrefixes: sets.NewString("api"),
	}
	return c
}

// NewWorld builds the gateway inside the current bubble.
func NewWorld(r *sim.Run, opts Options) *World {
	seed := int64(r.T.Draw(1 << 30))
	mathrand.Seed(seed)
	utilrand.Seed(seed)
	w := &World{R: r, Opts: opts, Clusters: map[string]*ClusterStub{}, Stubs: map[string]*Stub{}, scripts: map[string]*Script{},
		objs: map[string]*proxyv1alpha1.UpstreamCluster{}, versions: map[string]int{}, start: time.Now(), nextPort: 40000, stopCh: make(chan struct{}), Latency: time.Millisecond}
	w.Sc = sim.NewSched(r)
	w.Sc.Quiesce = synctest.Wait
	w.Sc.Enabled = func(string) bool { return false }
	w.Sc.Install()

	clusters.VerifDial = w.dialUpstream
	clusters.VerifOrderNames = func(names []string) []string {
		sort.Strings(names)
		return names
	}

	w.Fake = gatewayfake.NewSimpleClientset()
	w.CtlGate, w.AdmitGate = NewGate(), NewGate()
	w.informer = gatewayinformers.NewSharedInformerFactory(&gatedClient{w.Fake, w.CtlGate}, 12*time.Hour)
	w.Ctl = controllers.NewUpstreamClusterController(w.informer.Proxy().V1alpha1().UpstreamClusters(), &proxyoptions.RateLimiterOptions{RateLimiter: "local"})
	w.informer.Start(w.stopCh)
	go w.Ctl.Run(w.stopCh)

	// the real admission plugin in front of the store, with its own lister
	w.admitInf = gatewayinformers.NewSharedInformerFactory(&gatedClient{w.Fake, w.AdmitGate}, 12*time.Hour)
	pl := upstreamclusteradmission.NewUpstreamClusterPlugin()
	pl.(interface {
		SetGatewayResourceInformerFactory(gatewayinformers.SharedInformerFactory)
	}).SetGatewayResourceInformerFactory(w.admitInf)
	w.admitInf.Start(w.stopCh)
	w.admit = pl

	// authentication and authorization exactly as the proxy server wires them
	authnCfg := proxyauthenticator.AuthenricatorConfig{
		TokenSuccessCacheTTL: opts.TokenSuccessTTL,
		TokenFailureCacheTTL: opts.TokenFailureTTL,
		Anonymous:            true,
		ClientCert:           &proxyauthenticator.ClientCertAuthenticationConfig{SNIVerifyOptionsPorvider: w.Ctl},
		TokenRequest:         &proxyauthenticator.TokenAuthenticationConfig{ClusterClientProvider: w.Ctl},
	}
	authn, _, err := authnCfg.New()
	if err != nil {
		panic(err)
	}
	authzCfg := proxyauthorizer.AuthorizerConfig{CacheAuthorizedTTL: opts.AuthzAllowTTL, CacheUnauthorizedTTL: opts.AuthzDenyTTL, ClusterClientProvider: w.Ctl}
	authz, _, err := authzCfg.New()
	if err != nil {
		panic(err)
	}
	c := newGenericConfig()
	c.Authentication.Authenticator = authn
	c.Authorization.Authorizer = authz
	chain := app.VerifBuildProxyHandlerChain(w.Ctl, false)(http.NotFoundHandler(), c)

	w.gwLn = newPipeListener(tcpAddr("10.0.0.1", 6443))
	w.gwSrv = &http.Server{Handler: chain}
	go w.gwSrv.Serve(w.gwLn)
	// start-up: whether the informers have synced when the controller polls
	// for the first time (every 100 ms) depends on goroutine start order,
	// which the tape does not own; half a second later both orders have
	// converged to the same state.
	w.Sc.Settle()
	time.Sleep(500 * time.Millisecond)
	w.Sc.Settle()
	w.start = time.Now()
	return w
}

func (w *World) Now() time.Duration { return time.Since(w.start) }

// transit delays the calling stub handler by the network latency.
func (w *World) transit() {
	w.inTransit.Add(1)
	time.Sleep(w.Latency)
	w.inTransit.Add(-1)
}

// Quiesce waits until nothing moves any more, letting fake time pass only as
// far as messages in transit need.
func (w *World) Quiesce() {
	if w.NoWait {
		// the driver issues several actions for the same instant (an update and the
		// requests that arrive while it is being applied) and settles afterwards
		return
	}
	w.Sc.Settle()
	for i := 0; i < 1000 && w.inTransit.Load() > 0; i++ {
		time.Sleep(w.Latency)
		w.Sc.Settle()
	}
}

// Advance lets fake time pass (at most d; stops early at a sim point).
func (w *World) Advance(d time.Duration) time.Duration {
	a := w.Sc.Advance(d)
	w.Quiesce()
	return a
}

// Release releases a parked point and waits for quiescence.
func (w *World) Release(p *sim.Point, outcome int) {
	w.Sc.Release(p, outcome)
	w.Quiesce()
}

// dialUpstream is installed as clusters.VerifDial (hook H1).
func (w *World) dialUpstream(ctx context.Context, network, addr string) (net.Conn, error) {
	w.mu.Lock()
	s := w.Stubs[addr]
	w.mu.Unlock()
	if s == nil {
		return nil, &net.OpError{Op: "dial", Net: network, Err: fmt.Errorf("connect: no route to host %s", addr)}
	}
	switch s.DialMode {
	case "refused":
		w.R.Fault("dial_refused")
		// the shape a real refused connect has: the shipped code classifies it with
		// utilnet.IsConnectionRefused (and then triggers a health probe at once)
		return nil, &net.OpError{Op: "dial", Net: network, Err: &os.SyscallError{Syscall: "connect", Err: syscall.ECONNREFUSED}}
	case "blackhole":
		w.R.Fault("dial_blackhole")
		<-ctx.Done()
		return nil, &net.OpError{Op: "dial", Net: network, Err: ctx.Err()}
	}
	w.mu.Lock()
	w.nextPort++
	port := w.nextPort
	w.mu.Unlock()
	cli0, srv0, err := s.ln.dial(tcpAddr("10.0.0.1", port))
	cli, _ := cli0.(*addrConn)
	if srv0 != nil && os.Getenv("KG_DEBUG_CLOSE") != "" {
		srv0.onClose = func() { fmt.Fprintf(os.Stderr, "CLOSE stub side %s by:\n%s\n", addr, debug.Stack()) }
	}
	if err != nil {
		return nil, &net.OpError{Op: "dial", Net: network, Err: err}
	}
	s.conns++
	if os.Getenv("KG_DEBUG_CLOSE") != "" {
		cli.onClose = func() { fmt.Fprintf(os.Stderr, "CLOSE upstream conn %s by:\n%s\n", addr, debug.Stack()) }
	}
	return cli, nil
}

type sysErr struct{ s string }

func (e *sysErr) Error() string { return e.s }

// AddClusterStub registers the scripted behaviour of an upstream cluster and
// its endpoints (the stubs exist whether or not the gateway knows them).
func (w *World) AddClusterStub(name string, nEndpoints int, idx int) *ClusterStub {
	cl := &ClusterStub{Name: name, Tokens: map[string]Ident{}}
	w.mu.Lock()
	w.Clusters[name] = cl
	w.mu.Unlock()
	for e := 0; e < nEndpoints; e++ {
		ep := fmt.Sprintf("http://10.%d.0.%d:6443", idx+1, e+1)
		st := w.newStub(cl, ep)
		w.mu.Lock()
		w.Stubs[st.Addr] = st
		w.mu.Unlock()
	}
	return cl
}

// Endpoints returns the endpoint URLs of a cluster stub in canonical order.
func (w *World) EndpointsOf(name string) []string {
	var out []string
	w.mu.Lock()
	for _, s := range w.Stubs {
		if s.Cluster.Name == name {
			out = append(out, s.Endpoint)
		}
	}
	w.mu.Unlock()
	sort.Strings(out)
	return out
}

func (w *World) StubFor(endpoint string) *Stub {
	w.mu.Lock()
	defer w.mu.Unlock()
	return w.Stubs[strings.TrimPrefix(endpoint, "http://")]
}

// EnablePreemption turns preemption fuzzing on for this world (profiles whose name
// contains "preempt"): the gateway's own goroutines give up the processor at one in
// three statements of the controller and of the cluster info, so that whatever else is
// runnable (another queue worker if there were one, informer handlers, requests being
// matched and picked, probers) runs in between. seed comes from the tape.
func (w *World) EnablePreemption(seed uint64) {
	w.Sc.SeedPreemption(seed)
	w.Sc.PreemptSites = func(site string) bool {
		return strings.HasPrefix(site, "upstream_controller.go") || strings.HasPrefix(site, "clusterinfo.go") ||
			strings.HasPrefix(site, "tokenreview.go") || strings.HasPrefix(site, "subjectaccessreview.go")
	}
}

// Apply submits an UpstreamCluster through the real admission plugin and, if
// admitted, stores it (create or update). It returns the admission error.
func (w *World) Apply(obj *proxyv1alpha1.UpstreamCluster) error {
	obj = obj.DeepCopy()
	_, exists := w.objs[obj.Name]
	op := admission.Create
	var old runtime.Object
	if exists {
		op = admission.Update
		old = w.objs[obj.Name]
	}
	attrs := admission.NewAttributesRecord(obj, old, proxyv1alpha1.SchemeGroupVersion.WithKind("UpstreamCluster"), "", obj.Name,
		proxyv1alpha1.SchemeGroupVersion.WithResource("upstreamclusters"), "", op, nil, false, &user.DefaultInfo{Name: "admin"})
	oi := admission.NewObjectInterfacesFromScheme(gatewayscheme.Scheme)
	if m, ok := w.admit.(admission.MutationInterface); ok {
		if err := m.Admit(context.Background(), attrs, oi); err != nil {
			return err
		}
	}
	if v, ok := w.admit.(admission.ValidationInterface); ok {
		if err := v.Validate(context.Background(), attrs, oi); err != nil {
			return err
		}
	}
	w.versions[obj.Name]++
	obj.ResourceVersion = fmt.Sprint(w.versions[obj.Name])
	// metadata.generation as an API server maintains it: 1 for a new object (also
	// for one that is created again under an old name), +1 whenever the spec changes
	if !exists {
		obj.Generation = 1
	} else {
		obj.Generation = w.objs[obj.Name].Generation
		if !apiequality.Semantic.DeepEqual(w.objs[obj.Name].Spec, obj.Spec) {
			obj.Generation++
		}
	}
	var err error
	if exists {
		_, err = w.Fake.ProxyV1alpha1().UpstreamClusters().Update(context.Background(), obj, metav1.UpdateOptions{})
	} else {
		_, err = w.Fake.ProxyV1alpha1().UpstreamClusters().Create(context.Background(), obj, metav1.CreateOptions{})
	}
	if err != nil {
		panic("simapi: storing an admitted object failed: " + err.Error())
	}
	w.objs[obj.Name] = obj
	w.Quiesce()
	return nil
}

// Delete removes the object from the API.
func (w *World) Delete(name string) {
	if _, ok := w.objs[name]; !ok {
		return
	}
	err := w.Fake.ProxyV1alpha1().UpstreamClusters().Delete(context.Background(), name, metav1.DeleteOptions{})
	if err != nil && !apierrors.IsNotFound(err) {
		panic(err)
	}
	delete(w.objs, name)
	w.versions[name]++
	w.Quiesce()
}

func (w *World) Latest(name string) *proxyv1alpha1.UpstreamCluster { return w.objs[name] }

// Snapshot records the gateway's observable state at the current boundary.
func (w *World) Snapshot() *Snap {
	s := &Snap{Step: w.R.Step, Now: w.Now(), Clusters: map[string]*ClusterSnap{}, Resolve: map[string]string{}}
	for name, obj := range w.objs {
		cs := &ClusterSnap{Endpoints: map[string]EPState{}, Obj: obj, Version: w.versions[name]}
		if info, ok := w.Ctl.Get(name); ok && info.Cluster == strings.ToLower(name) {
			info.Endpoints.Range(func(ep string, e *clusters.EndpointInfo) bool {
				cs.Endpoints[ep] = EPState{Ready: e.IsReady(), Disabled: e.IstDisabled()}
				return true
			})
		}
		s.Clusters[strings.ToLower(name)] = cs
	}
	for _, h := range w.Hosts {
		if info, ok := w.Ctl.Get(h); ok {
			s.Resolve[h] = info.Cluster
		} else {
			s.Resolve[h] = ""
		}
	}
	w.mu.Lock()
	w.snaps = append(w.snaps, s)
	w.mu.Unlock()
	return s
}

func (w *World) Snaps() []*Snap { return w.snaps }

func (w *World) UpObs() []*UpObs {
	w.mu.Lock()
	defer w.mu.Unlock()
	return append([]*UpObs(nil), w.upObs...)
}

func (w *World) Reqs() []*Req { return w.reqs }

func (w *World) SetScript(id string, sc *Script) {
	w.mu.Lock()
	w.scripts[id] = sc
	w.mu.Unlock()
}

// Send starts a client request (raw HTTP/1.1 bytes over a fresh connection)
// and waits for quiescence: on return the request is either finished or parked
// somewhere (review hold, upstream hold, stream).
func (w *World) Send(q *Req) {
	w.mu.Lock()
	w.nextPort++
	port := w.nextPort
	q.StartStep = w.R.Step
	q.StartBoundary = len(w.snaps) - 1
	w.reqs = append(w.reqs, q)
	w.mu.Unlock()
	if q.Remote == "" {
		q.Remote = fmt.Sprintf("192.0.2.%d:%d", 1+len(w.reqs)%200, port)
	}
	host, _, _ := net.SplitHostPort(q.Remote)
	cli, _, err := w.gwLn.dial(tcpAddr(host, port))
	if err != nil {
		q.Done, q.ReadErr = true, err.Error()
		return
	}
	q.conn = cli
	var b bytes.Buffer
	fmt.Fprintf(&b, "%s %s HTTP/1.1\r\nHost: %s\r\nX-Sim-Id: %s\r\n", q.Method, q.Target, q.Host, q.ID)
	for _, h := range q.Headers {
		fmt.Fprintf(&b, "%s: %s\r\n", h[0], h[1])
	}
	if q.Chunked {
		b.WriteString("Transfer-Encoding: chunked\r\n\r\n")
		for off := 0; off < len(q.Body); off += 1000 {
			end := off + 1000
			if end > len(q.Body) {
				end = len(q.Body)
			}
			fmt.Fprintf(&b, "%x\r\n", end-off)
			b.Write(q.Body[off:end])
			b.WriteString("\r\n")
		}
		b.WriteString("0\r\n\r\n")
	} else {
		if len(q.Body) > 0 || q.Method == "POST" || q.Method == "PUT" || q.Method == "PATCH" {
			fmt.Fprintf(&b, "Content-Length: %d\r\n", len(q.Body))
		}
		b.WriteString("\r\n")
		b.Write(q.Body)
	}
	raw := b.Bytes()
	go func() { _, _ = cli.Write(raw) }()
	go func() {
		defer func() {
			q.EndStep = w.R.Step
			w.mu.Lock()
			q.EndBoundary = len(w.snaps) - 1
			w.mu.Unlock()
			q.Done = true
			cli.Close()
		}()
		resp, err := http.ReadResponse(bufio.NewReader(io.TeeReader(cli, &q.Raw)), nil)
		if err != nil {
			q.ReadErr = "read response: " + err.Error()
			return
		}
		q.Status = resp.StatusCode
		q.RespHeader = resp.Header
		body, err := io.ReadAll(resp.Body)
		q.RespBody = body
		if err != nil {
			q.ReadErr = "read body: " + err.Error()
		}
	}()
	w.Quiesce()
}

// Abort closes the client's connection (client_abort).
func (w *World) Abort(q *Req) {
	if q.conn != nil && !q.Done {
		q.Aborted = true
		q.conn.Close()
		w.R.Fault("client_abort")
	}
	w.Quiesce()
}

// Stop ends the world's own goroutines as far as possible.
func (w *World) Stop() {
	clusters.VerifDial = nil
	clusters.VerifOrderNames = nil
	w.Sc.Uninstall()
}

// BaseCluster returns a valid minimal UpstreamCluster over the given endpoints.
func BaseCluster(name string, endpoints []string) *proxyv1alpha1.UpstreamCluster {
	cl := &proxyv1alpha1.UpstreamCluster{ObjectMeta: metav1.ObjectMeta{Name: name}}
	for _, e := range endpoints {
		cl.Spec.Servers = append(cl.Spec.Servers, proxyv1alpha1.UpstreamClusterServer{Endpoint: e})
	}
	cl.Spec.ClientConfig.BearerToken = []byte("gw-cred-" + name)
	cl.Spec.DispatchPolicies = []proxyv1alpha1.DispatchPolicy{{
		Rules: []proxyv1alpha1.DispatchPolicyRule{
			{Verbs: []string{"*"}, APIGroups: []string{"*"}, Resources: []string{"*"}},
			{Verbs: []string{"*"}, NonResourceURLs: []string{"*"}},
		},
	}}
	return cl
}

var _ = features.DenyAllRequests

// Twin builds a second, freshly started controller (informer, manager, cluster
// infos, probes) in the same bubble from the given objects only. It shares the
// stub upstreams with the world.
func (w *World) Twin(objs []*proxyv1alpha1.UpstreamCluster) *controllers.UpstreamClusterController {
	var ro []runtime.Object
	for _, o := range objs {
		ro = append(ro, o.DeepCopy())
	}
	fake := gatewayfake.NewSimpleClientset(ro...)
	inf := gatewayinformers.NewSharedInformerFactory(fake, 12*time.Hour)
	ctl := controllers.NewUpstreamClusterController(inf.Proxy().V1alpha1().UpstreamClusters(), &proxyoptions.RateLimiterOptions{RateLimiter: "local"})
	inf.Start(w.stopCh)
	go ctl.Run(w.stopCh)
	w.Sc.Settle()
	time.Sleep(500 * time.Millisecond)
	w.Quiesce()
	return ctl
}

// LatestObjects returns the latest stored objects sorted by name.
func (w *World) LatestObjects() []*proxyv1alpha1.UpstreamCluster {
	var names []string
	for n := range w.objs {
		names = append(names, n)
	}
	sort.Strings(names)
	var out []*proxyv1alpha1.UpstreamCluster
	for _, n := range names {
		out = append(out, w.objs[n])
	}
	return out
}
