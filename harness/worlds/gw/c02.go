package gw

import (
	"fmt"
	"net/url"
	"sort"
	"strings"
	"time"

	"kgsim/sim"
)

type identity struct {
	user   string
	groups []string
	extra  map[string][]string
}

func (i identity) String() string {
	g := append([]string(nil), i.groups...)
	sort.Strings(g)
	var ex []string
	for k, v := range i.extra {
		vv := append([]string(nil), v...)
		sort.Strings(vv)
		ex = append(ex, k+"="+strings.Join(vv, ","))
	}
	sort.Strings(ex)
	return fmt.Sprintf("user=%q groups=%q extra=%q", i.user, g, ex)
}

func withAuthenticated(groups []string) []string {
	for _, g := range groups {
		// the authenticator chain's group adder leaves the list alone when either marker group is present
		if g == "system:authenticated" || g == "system:unauthenticated" {
			return groups
		}
	}
	return append(append([]string(nil), groups...), "system:authenticated")
}

type c02Req struct {
	q        *Req
	cluster  string
	token    string // "" none, else the token sent
	impUser  string
	hasImpU  bool
	impGrp   []string
	impExtra map[string][]string // lower-cased, unescaped key -> values
	otherImp bool
	expect   string // forward | 401 | 403 | 500
	want     identity
}

// observedIdentity decodes what a stub was told to act as.
func observedIdentity(o *UpObs) (identity, []string) {
	id := identity{extra: map[string][]string{}}
	var other []string
	for k, vv := range o.Header {
		switch {
		case k == "Impersonate-User":
			id.user = strings.Join(vv, "\x00")
		case k == "Impersonate-Group":
			id.groups = append(id.groups, vv...)
		case strings.HasPrefix(k, "Impersonate-Extra-"):
			key := strings.ToLower(k[len("Impersonate-Extra-"):])
			if u, err := url.PathUnescape(key); err == nil {
				key = u
			}
			id.extra[key] = append(id.extra[key], vv...)
		case strings.HasPrefix(k, "Impersonate-"):
			other = append(other, k)
		}
	}
	sort.Strings(other)
	return id, other
}

// RunC02: identity propagation.
func RunC02(r *sim.Run) {
	t := r.T
	faults := !strings.Contains(r.Profile, "nofault")
	w := NewWorld(r, defaultOpts())
	defer w.Stop()

	users := []string{"alice", "bob@example.com", "system:node:n1", "Ünï©ode", "with space", "system:serviceaccount:ns1:builder"}
	groupPool := []string{"dev", "system:masters", "ops team", "system:authenticated", "system:unauthenticated", "grüppe"}
	extraKeys := []string{"scopes", "acme.com/project", "ключ", "a b", "UPPER"}
	nCl := t.Range(1, 2)
	names := []string{"alpha", "beta"}[:nCl]
	sarTable := map[string]map[string]string{}
	for ci, name := range names {
		cl := w.AddClusterStub(name, t.Range(1, 2), ci)
		for k := 0; k < 3; k++ {
			id := Ident{User: users[t.Draw(len(users))], UID: fmt.Sprintf("uid-%d", k)}
			for g := t.Draw(3); g > 0; g-- {
				id.Groups = append(id.Groups, groupPool[t.Draw(len(groupPool))])
			}
			if t.Draw(2) == 0 {
				id.Extra = map[string][]string{}
				for e := t.Range(1, 2); e > 0; e-- {
					id.Extra[extraKeys[t.Draw(len(extraKeys))]] = []string{fmt.Sprintf("v%d", e), "x y"}[:t.Range(1, 2)]
				}
			}
			cl.Tokens[fmt.Sprintf("tok%d", k)] = id
		}
		tbl := map[string]string{}
		sarTable[name] = tbl
		cname := name
		cl.SAR = func(spec authorizationSpec) string {
			a := spec.ResourceAttributes
			if a == nil || a.Verb != "impersonate" {
				return "noopinion"
			}
			key := a.Resource + "/" + a.Subresource + "/" + a.Namespace + "/" + a.Name
			if v, ok := sarTable[cname][key]; ok {
				return v
			}
			return "allow"
		}
		if err := w.Apply(BaseCluster(name, w.EndpointsOf(name))); err != nil {
			r.Inconclusive("apply: " + err.Error())
			return
		}
	}
	w.Boundary()
	w.Advance(100 * time.Millisecond)
	w.Boundary()

	impUsers := []string{"bob", "system:serviceaccount:ns1:deployer", "system:anonymous", "mallory", "Ünï"}
	impGroups := []string{"dev", "system:masters", "system:authenticated", "system:unauthenticated", "admins"}
	impExtraHdr := []string{"Scopes", "acme.com%2Fproject", "some%2fkey", "UPPER", "plain"}
	sarOutcome := func(cluster, key string) string {
		tbl := sarTable[cluster]
		if v, ok := tbl[key]; ok {
			return v
		}
		v := []string{"allow", "allow", "allow", "allow", "deny", "noopinion"}[t.Draw(6)]
		if faults && t.Draw(12) == 0 {
			v = "error"
		}
		tbl[key] = v
		return v
	}

	var reqs []*c02Req
	n := t.Range(8, 28)
	resets := 0
	for i := 0; i < n; i++ {
		if faults && t.Draw(10) == 0 {
			// the health probes of a cluster's endpoints hang while their bodies are read, three
			// times in a row (the gateway then rebuilds the endpoint's transports), and recover
			cl := names[t.Draw(len(names))]
			for _, e := range w.EndpointsOf(cl) {
				w.StubFor(e).Health = "hang-body"
			}
			r.Fault("health_flap")
			for k := 0; k < 8; k++ {
				w.Advance(5 * time.Second)
				w.Boundary()
			}
			for _, e := range w.EndpointsOf(cl) {
				w.StubFor(e).Health = ""
			}
			for k := 0; k < 3; k++ {
				w.Advance(4 * time.Second)
				w.Boundary()
			}
			resets++
			r.Logf("probes of %s hung mid-body for 40 s and recovered", cl)
		}
		c := &c02Req{cluster: names[t.Draw(len(names))], impExtra: map[string][]string{}}
		q := &Req{ID: fmt.Sprintf("i%d", i), Host: c.cluster, Method: "GET", Target: "/api/v1/namespaces/default/pods"}
		c.q = q
		hdr := func(name string) string {
			switch t.Draw(4) {
			case 1:
				return strings.ToLower(name)
			case 2:
				return strings.ToUpper(name)
			}
			return name
		}
		// credentials
		switch t.Pick([]int{8, 2, 2, 1}) {
		case 0:
			c.token = fmt.Sprintf("tok%d", t.Draw(3))
			q.Headers = append(q.Headers, [2]string{hdr("Authorization"), "Bearer " + c.token})
		case 1:
			c.token = "bogus-token"
			q.Headers = append(q.Headers, [2]string{hdr("Authorization"), "Bearer " + c.token})
		case 2:
			// anonymous
		case 3:
			c.token = fmt.Sprintf("tok%d", t.Draw(3))
			q.Headers = append(q.Headers, [2]string{"Authorization", "Bearer " + c.token}, [2]string{"Authorization", "Bearer second-value"})
		}
		// impersonation
		if t.Draw(2) == 0 {
			c.hasImpU = true
			c.impUser = impUsers[t.Draw(len(impUsers))]
			if t.Draw(10) == 0 {
				c.impUser = ""
			}
			q.Headers = append(q.Headers, [2]string{hdr("Impersonate-User"), c.impUser})
		}
		if t.Draw(3) == 0 {
			for g := t.Range(1, 3); g > 0; g-- {
				v := impGroups[t.Draw(len(impGroups))]
				c.impGrp = append(c.impGrp, v)
				q.Headers = append(q.Headers, [2]string{hdr("Impersonate-Group"), v})
			}
		}
		if t.Draw(3) == 0 {
			for e := t.Range(1, 3); e > 0; e-- {
				hk := impExtraHdr[t.Draw(len(impExtraHdr))]
				// values from a small pool: the same value may appear under two extra keys,
				// and what is allowed under one key may be refused under the other
				v := []string{"ev1", "ev2", "view"}[t.Draw(3)]
				key := strings.ToLower(hk)
				if u, err := url.PathUnescape(key); err == nil {
					key = u
				}
				c.impExtra[key] = append(c.impExtra[key], v)
				q.Headers = append(q.Headers, [2]string{hdr("Impersonate-Extra-" + hk), v})
			}
		}
		if t.Draw(3) == 0 {
			c.otherImp = true
			q.Headers = append(q.Headers, [2]string{hdr([]string{"Impersonate-Uid", "Impersonate-Foo", "Impersonate-Userx"}[t.Draw(3)]), "1234"})
		}

		// ---- reference: what must happen ---------------------------------
		var auth identity
		authed := true
		switch {
		case c.token == "":
			auth = identity{user: "system:anonymous", groups: []string{"system:unauthenticated"}}
		default:
			id, ok := w.Clusters[c.cluster].Tokens[c.token]
			if !ok {
				authed = false
			} else {
				auth = identity{user: id.User, groups: withAuthenticated(id.Groups), extra: map[string][]string{}}
				for k, v := range id.Extra {
					auth.extra[strings.ToLower(k)] = v
				}
			}
		}
		wantsImp := c.hasImpU && c.impUser != ""
		switch {
		case !authed:
			c.expect = "401"
		case !wantsImp && (len(c.impGrp) > 0 || len(c.impExtra) > 0):
			c.expect = "500" // groups/extras without a user: malformed
		case !wantsImp:
			c.expect = "forward"
			c.want = auth
		default:
			allowed := true
			var sa bool
			var ns, saName string
			if strings.HasPrefix(c.impUser, "system:serviceaccount:") {
				parts := strings.Split(c.impUser, ":")
				if len(parts) == 4 && parts[2] != "" && parts[3] != "" {
					sa, ns, saName = true, parts[2], parts[3]
				}
			}
			if sa {
				allowed = sarOutcome(c.cluster, "serviceaccounts//"+ns+"/"+saName) == "allow" && allowed
			} else {
				allowed = sarOutcome(c.cluster, "users///"+c.impUser) == "allow" && allowed
			}
			for _, g := range c.impGrp {
				allowed = sarOutcome(c.cluster, "groups///"+g) == "allow" && allowed
			}
			var eks []string
			for k := range c.impExtra {
				eks = append(eks, k)
			}
			sort.Strings(eks)
			for _, k := range eks {
				for _, v := range c.impExtra[k] {
					allowed = sarOutcome(c.cluster, "userextras/"+k+"//"+v) == "allow" && allowed
				}
			}
			if !allowed {
				c.expect = "403"
			} else {
				c.expect = "forward"
				groups := append([]string(nil), c.impGrp...)
				if sa && len(c.impGrp) == 0 {
					groups = []string{"system:serviceaccounts", "system:serviceaccounts:" + ns}
				}
				if c.impUser != "system:anonymous" {
					add := true
					for _, g := range groups {
						if g == "system:authenticated" || g == "system:unauthenticated" {
							add = false
						}
					}
					if add {
						groups = append(groups, "system:authenticated")
					}
				} else {
					add := true
					for _, g := range groups {
						if g == "system:unauthenticated" {
							add = false
						}
					}
					if add {
						groups = append(groups, "system:unauthenticated")
					}
				}
				c.want = identity{user: c.impUser, groups: groups, extra: c.impExtra}
			}
		}
		reqs = append(reqs, c)
	}

	for _, c := range reqs {
		w.Send(c.q)
		for g := 0; g < 12 && !c.q.Done; g++ {
			w.Advance(time.Second) // review back-off after an injected SAR error
		}
		r.Logf("%s host=%s tok=%q impUser=%q(%v) grp=%q extra=%d other=%v expect=%s -> %d", c.q.ID, c.cluster, c.token, c.impUser, c.hasImpU, c.impGrp, len(c.impExtra), c.otherImp, c.expect, c.q.Status)
		w.Boundary()
	}
	r.SimSecs = w.Now().Seconds()

	// ---- oracle ------------------------------------------------------------
	obsByID := map[string][]*UpObs{}
	for _, o := range w.UpObs() {
		if o.Kind == "proxied" {
			obsByID[o.ID] = append(obsByID[o.ID], o)
		}
	}
	nFwd, nRefused, nImp := 0, 0, 0
	for _, c := range reqs {
		q := c.q
		if !q.Done {
			r.Violate("request_hung", "c02", "request %s never finished\n%s", q.ID, sim.Goroutines("impersonation", "dispatcher"))
			return
		}
		obs := obsByID[q.ID]
		if c.expect != "forward" {
			nRefused++
			r.Checked("refused_not_forwarded")
			if len(obs) > 0 {
				got, _ := observedIdentity(obs[0])
				r.Violate("refused_identity_forwarded", c.expect, "request %s must be answered by the gateway with %s (token %q, impersonate user %q groups %q extras %v) but was forwarded as %v", q.ID, c.expect, c.token, c.impUser, c.impGrp, c.impExtra, got)
				return
			}
			want := map[string]int{"401": 401, "403": 403, "500": 500}[c.expect]
			if q.Status != want {
				r.Violate("wrong_refusal_status", c.expect, "request %s: expected the gateway to answer %d, got %d %q", q.ID, want, q.Status, trunc(q.RespBody, 160))
				return
			}
			continue
		}
		if len(obs) == 0 {
			r.Violate("not_forwarded", "c02", "request %s should be forwarded as %v but no upstream saw it; client got %d %q", q.ID, c.want, q.Status, trunc(q.RespBody, 200))
			return
		}
		nFwd++
		if c.hasImpU && c.impUser != "" {
			nImp++
		}
		o := obs[0]
		r.Checked("upstream_sees_exact_identity")
		if got := o.Header["Authorization"]; len(got) != 1 || got[0] != "Bearer gw-cred-"+c.cluster {
			r.Violate("client_credential_forwarded", "c02", "request %s: upstream received Authorization %q, expected only the gateway's own credential", q.ID, got)
			return
		}
		got, other := observedIdentity(o)
		if len(other) > 0 {
			r.Violate("client_impersonate_header_forwarded", strings.Join(other, ","), "request %s: client-supplied header(s) %v of the Impersonate-* family reached the upstream (values %q)", q.ID, other, o.Header[other[0]])
			return
		}
		if got.String() != c.want.String() {
			r.Violate("wrong_identity", "c02", "request %s (token %q, impersonation user=%q groups=%q extras=%v): upstream was told to act as %v, expected %v", q.ID, c.token, c.impUser, c.impGrp, c.impExtra, got, c.want)
			return
		}
	}
	r.ProbeN("forwarded_checked", nFwd)
	r.ProbeN("refused_checked", nRefused)
	r.ProbeN("impersonations_forwarded", nImp)
	r.ProbeN("probe_hang_episodes", resets)
	r.Nontrivial = nFwd > 0 && nRefused > 0
	var sample []string
	for i, c := range reqs {
		if i < 4 {
			var hs []string
			for _, h := range c.q.Headers {
				hs = append(hs, h[0]+": "+h[1])
			}
			sample = append(sample, strings.Join(hs, " | ")+" => "+c.expect+" "+c.want.String())
		}
	}
	r.Sample = map[string]interface{}{"requests": len(reqs), "examples": sample}
}
