package gw

import (
	"fmt"
	"sort"
	"strings"
	"time"

	proxyv1alpha1 "github.com/kubewharf/kubegateway/pkg/apis/proxy/v1alpha1"

	"kgsim/sim"
)

type verRec struct {
	at  time.Duration
	val string
}

type c12Req struct {
	q       *Req
	host    string
	owner   string // cluster the host resolved to by the model, "" = none
	token   string
	imp     bool
	at      time.Duration
	ownerUp bool
	impUser string // the impersonated user ("bob" unless stated)
	overlap bool   // issued while a request to another cluster was in flight
}

// RunC12: authentication and authorization decisions never cross clusters.
func RunC12(r *sim.Run) {
	t := r.T
	extended := strings.Contains(r.Profile, "alias")
	ttlS := []time.Duration{0, 2 * time.Second, 10 * time.Minute}[t.Draw(3)]
	ttlF := []time.Duration{0, 2 * time.Second, 10 * time.Second}[t.Draw(3)]
	ttlA := []time.Duration{2 * time.Second, 5 * time.Minute}[t.Draw(2)]
	ttlD := []time.Duration{2 * time.Second, 30 * time.Second}[t.Draw(2)]
	w := NewWorld(r, Options{TokenSuccessTTL: ttlS, TokenFailureTTL: ttlF, AuthzAllowTTL: ttlA, AuthzDenyTTL: ttlD})
	defer w.Stop()
	if strings.Contains(r.Profile, "preempt") {
		w.EnablePreemption(uint64(t.Draw(1 << 30)))
		defer func() { r.ProbeN("preemptions_inside_gateway_code", w.Sc.Preempts) }()
	}
	maxTTL := ttlS
	for _, d := range []time.Duration{ttlF, ttlA, ttlD} {
		if d > maxTTL {
			maxTTL = d
		}
	}

	nCl := t.Range(2, 3)
	names := []string{"alpha", "beta", "gamma"}[:nCl]
	aliases := map[string][]string{"alpha": {"a.example.com"}, "beta": {"b.example.com"}, "gamma": {"g.example.com"}}
	floating := "shared.example.com" // the alias that may move (extended profile)
	floatOwner := names[0]
	// histories
	userHist := map[string]map[string][]verRec{} // cluster -> token -> versions of the user name
	impHist := map[string][]verRec{}             // cluster -> versions of "may impersonate bob": allow/deny
	build := func(name string) *proxyv1alpha1.UpstreamCluster {
		o := BaseCluster(name, w.EndpointsOf(name))
		o.Spec.SecureServing.ServerNames = append([]string(nil), aliases[name]...)
		if extended && floatOwner == name {
			o.Spec.SecureServing.ServerNames = append(o.Spec.SecureServing.ServerNames, floating)
		}
		return o
	}
	uniq := 0
	for ci, name := range names {
		cl := w.AddClusterStub(name, t.Range(1, 2), ci)
		userHist[name] = map[string][]verRec{}
		for _, tok := range []string{"t1", "t2"} {
			if t.Draw(5) == 0 {
				continue // this cluster does not know the token
			}
			uniq++
			u := fmt.Sprintf("%s-user%d", name, uniq)
			cl.Tokens[tok] = Ident{User: u}
			userHist[name][tok] = []verRec{{0, u}}
		}
		// the same person holds an account in every cluster
		cl.Tokens["ts"] = Ident{User: "carol"}
		userHist[name]["ts"] = []verRec{{0, "carol"}}
		cname := name
		impHist[name] = []verRec{{0, []string{"allow", "deny"}[t.Draw(2)]}}
		cl.SAR = func(spec authorizationSpec) string {
			h := impHist[cname]
			return h[len(h)-1].val
		}
	}
	for _, name := range names {
		if err := w.Apply(build(name)); err != nil {
			r.Inconclusive("apply: " + firstLine(err.Error()))
			return
		}
	}
	w.Boundary()
	w.Advance(100 * time.Millisecond)
	w.Boundary()

	live := map[string]bool{}
	reachable := map[string]bool{}
	for _, n := range names {
		live[n], reachable[n] = true, true
	}
	resolve := func(host string) string {
		h := strings.ToLower(host)
		if i := strings.LastIndex(h, ":"); i >= 0 {
			h = h[:i]
		}
		for _, n := range names {
			if !live[n] {
				continue
			}
			if h == n {
				return n
			}
			for _, a := range aliases[n] {
				if h == a {
					return n
				}
			}
			if extended && floatOwner == n && h == floating {
				return n
			}
		}
		return ""
	}

	var reqs []*c12Req
	nSteps := t.Range(15, 55)
	moves, mutations, twins, churns, sameInstant := 0, 0, 0, 0, 0
	for step := 0; step < nSteps; step++ {
		weights := []int{12, 4, 2, 2, 1, 0, 2, 0, 2, 3}
		if extended {
			weights[5] = 2
			weights[7] = 1
		}
		switch t.Pick(weights) {
		case 0: // request
			var hosts []string
			for _, n := range names {
				hosts = append(hosts, n, strings.ToUpper(n[:1])+n[1:]+":6443", aliases[n][0])
			}
			if extended {
				hosts = append(hosts, floating, floating, floating)
			}
			c := &c12Req{host: hosts[t.Draw(len(hosts))], token: []string{"t1", "t2", "t1", "nope"}[t.Draw(4)], imp: t.Draw(3) == 0}
			c.owner = resolve(c.host)
			c.ownerUp = c.owner != "" && reachable[c.owner]
			q := &Req{ID: fmt.Sprintf("c%d", len(reqs)), Host: c.host, Method: "GET", Target: "/api/v1/namespaces/default/pods",
				Headers: [][2]string{{"Authorization", "Bearer " + c.token}}}
			if c.imp {
				q.Headers = append(q.Headers, [2]string{"Impersonate-User", "bob"})
			}
			c.q = q
			c.at = w.Now()
			w.Send(q)
			for g := 0; g < 8 && !q.Done; g++ {
				w.Advance(time.Second)
			}
			reqs = append(reqs, c)
			r.Logf("req %s host=%s owner=%s tok=%s imp=%v -> %d", q.ID, c.host, c.owner, c.token, c.imp, q.Status)
		case 1: // time passes
			d := []time.Duration{500 * time.Millisecond, 2500 * time.Millisecond, 6 * time.Second, 11 * time.Second, 40 * time.Second, 11 * time.Minute}[t.Draw(6)]
			w.Advance(d)
			r.Logf("advance %v", d)
		case 2: // a cluster's own answers change
			mutations++
			n := names[t.Draw(len(names))]
			if t.Draw(2) == 0 {
				tok := []string{"t1", "t2"}[t.Draw(2)]
				uniq++
				if t.Draw(4) == 0 {
					delete(w.Clusters[n].Tokens, tok)
					userHist[n][tok] = append(userHist[n][tok], verRec{w.Now(), ""})
					r.Logf("mutate %s: token %s revoked", n, tok)
				} else {
					u := fmt.Sprintf("%s-user%d", n, uniq)
					w.Clusters[n].Tokens[tok] = Ident{User: u}
					userHist[n][tok] = append(userHist[n][tok], verRec{w.Now(), u})
					r.Logf("mutate %s: token %s -> %s", n, tok, u)
				}
			} else {
				cur := impHist[n][len(impHist[n])-1].val
				nv := "allow"
				if cur == "allow" {
					nv = "deny"
				}
				impHist[n] = append(impHist[n], verRec{w.Now(), nv})
				r.Logf("mutate %s: impersonation -> %s", n, nv)
			}
		case 3: // reachability
			n := names[t.Draw(len(names))]
			reachable[n] = !reachable[n]
			for _, e := range w.EndpointsOf(n) {
				if reachable[n] {
					w.StubFor(e).DialMode = ""
				} else {
					w.StubFor(e).DialMode = "refused"
				}
			}
			r.Fault("cluster_unreachable_toggle")
			r.Logf("reachable[%s]=%v", n, reachable[n])
			// existing keep-alive connections: the stub also fails reviews while unreachable
			if reachable[n] {
				w.Clusters[n].ReviewMode = ""
			} else {
				w.Clusters[n].ReviewMode = "500"
			}
		case 4: // delete and re-create
			n := names[t.Draw(len(names))]
			if live[n] {
				w.Delete(n)
				live[n] = false
				r.Logf("delete %s", n)
			} else {
				if err := w.Apply(build(n)); err == nil {
					live[n] = true
					r.Logf("recreate %s", n)
				} else {
					r.Logf("recreate %s rejected: %s", n, firstLine(err.Error()))
				}
			}
		case 5: // the floating alias moves to another live cluster
			var cands []string
			for _, n := range names {
				if n != floatOwner && live[n] {
					cands = append(cands, n)
				}
			}
			if len(cands) == 0 || !live[floatOwner] {
				break
			}
			old := floatOwner
			floatOwner = ""
			if err := w.Apply(build(old)); err != nil {
				floatOwner = old
				r.Logf("alias drop rejected: %s", firstLine(err.Error()))
				break
			}
			w.Boundary()
			nw := cands[t.Draw(len(cands))]
			floatOwner = nw
			if err := w.Apply(build(nw)); err != nil {
				floatOwner = ""
				r.Logf("alias add rejected: %s", firstLine(err.Error()))
				break
			}
			moves++
			r.Logf("alias %s moved %s -> %s", floating, old, nw)
		case 6: // the same user asks two clusters the same thing at the same time
			var up []string
			for _, n := range names {
				if live[n] && reachable[n] {
					up = append(up, n)
				}
			}
			if len(up) < 2 {
				break
			}
			i := t.Draw(len(up))
			j := (i + 1 + t.Draw(len(up)-1)) % len(up)
			twins++
			who := fmt.Sprintf("twin%d", twins)
			var pair []*c12Req
			for k, n := range []string{up[i], up[j]} {
				c := &c12Req{host: n, token: "ts", imp: true, impUser: who, overlap: true, owner: n, ownerUp: true, at: w.Now()}
				c.q = &Req{ID: fmt.Sprintf("c%d", len(reqs)), Host: n, Method: "GET", Target: "/api/v1/namespaces/default/pods",
					Headers: [][2]string{{"Authorization", "Bearer ts"}, {"Impersonate-User", who}}}
				if k == 0 {
					w.Clusters[n].ReviewMode = "hold-sar" // the first cluster's answer is slow
				}
				w.Send(c.q)
				reqs = append(reqs, c)
				pair = append(pair, c)
				w.Advance(time.Duration(t.Range(1, 400)) * time.Millisecond)
			}
			w.Clusters[up[i]].ReviewMode = ""
			for _, p := range w.Sc.Points() {
				if p.Kind == "review" {
					w.Release(p, UpRespond)
				}
			}
			for g := 0; g < 8 && !(pair[0].q.Done && pair[1].q.Done); g++ {
				w.Advance(time.Second)
			}
			r.Logf("twins %s: %s -> %d, %s -> %d (impersonation: %s=%s %s=%s)", who, up[i], pair[0].q.Status, up[j], pair[1].q.Status,
				up[i], impHist[up[i]][len(impHist[up[i]])-1].val, up[j], impHist[up[j]][len(impHist[up[j]])-1].val)
		case 9: // two or three requests with drawn tokens reach different clusters at the same instant
			var up []string
			for _, n := range names {
				if live[n] && reachable[n] {
					up = append(up, n)
				}
			}
			if len(up) < 2 {
				break
			}
			w.NoWait = true
			var batch []*c12Req
			for k := t.Range(2, 3); k > 0; k-- {
				n := up[t.Draw(len(up))]
				c := &c12Req{host: n, token: []string{"t1", "t2", "ts"}[t.Draw(3)], owner: n, ownerUp: true, overlap: true, at: w.Now()}
				c.q = &Req{ID: fmt.Sprintf("c%d", len(reqs)), Host: n, Method: "GET", Target: "/api/v1/namespaces/default/pods",
					Headers: [][2]string{{"Authorization", "Bearer " + c.token}}}
				w.Send(c.q)
				reqs = append(reqs, c)
				batch = append(batch, c)
			}
			w.NoWait = false
			w.Quiesce()
			for g := 0; g < 8; g++ {
				all := true
				for _, c := range batch {
					if !c.q.Done {
						all = false
					}
				}
				if all {
					break
				}
				w.Advance(time.Second)
			}
			sameInstant++
			r.Logf("same instant: %d requests to %d clusters", len(batch), len(up))
		case 8: // a cluster that answered a question goes away; another one is created and is asked the same question as its first
			var xs []string
			for _, n := range names {
				if live[n] && reachable[n] {
					xs = append(xs, n)
				}
			}
			if len(xs) == 0 {
				break
			}
			x := xs[t.Draw(len(xs))]
			var ys []string
			for _, n := range names {
				if n != x && reachable[n] {
					ys = append(ys, n)
				}
			}
			if len(ys) == 0 {
				break
			}
			y := ys[t.Draw(len(ys))]
			churns++
			who := fmt.Sprintf("churn%d", churns)
			ask := func(n string) *c12Req {
				c := &c12Req{host: n, token: "ts", imp: true, impUser: who, owner: n, ownerUp: true, at: w.Now()}
				c.q = &Req{ID: fmt.Sprintf("c%d", len(reqs)), Host: n, Method: "GET", Target: "/api/v1/namespaces/default/pods",
					Headers: [][2]string{{"Authorization", "Bearer ts"}, {"Impersonate-User", who}}}
				w.Send(c.q)
				for g := 0; g < 8 && !c.q.Done; g++ {
					w.Advance(time.Second)
				}
				reqs = append(reqs, c)
				return c
			}
			cx := ask(x)
			w.Delete(x)
			live[x] = false
			w.Boundary()
			if live[y] {
				w.Delete(y)
				live[y] = false
				w.Boundary()
			}
			if err := w.Apply(build(y)); err != nil {
				r.Logf("churn %s: %s -> %d, deleted; recreate %s rejected: %s", who, x, cx.q.Status, y, firstLine(err.Error()))
				break
			}
			live[y] = true
			w.Boundary()
			w.Advance(100 * time.Millisecond)
			w.Boundary()
			cy := ask(y)
			r.Logf("churn %s: %s -> %d, deleted; fresh %s -> %d (impersonation: %s=%s %s=%s)", who, x, cx.q.Status, y, cy.q.Status,
				x, impHist[x][len(impHist[x])-1].val, y, impHist[y][len(impHist[y])-1].val)
		case 7: // the floating alias moves while a request to it waits to retry a failed review
			var cands []string
			for _, n := range names {
				if n != floatOwner && live[n] && reachable[n] {
					cands = append(cands, n)
				}
			}
			if len(cands) == 0 || !live[floatOwner] || !reachable[floatOwner] {
				break
			}
			old := floatOwner
			twins++
			who := fmt.Sprintf("mover%d", twins)
			c := &c12Req{host: floating, token: "ts", imp: true, impUser: who, owner: old, ownerUp: true, at: w.Now()}
			c.q = &Req{ID: fmt.Sprintf("c%d", len(reqs)), Host: floating, Method: "GET", Target: "/api/v1/namespaces/default/pods",
				Headers: [][2]string{{"Authorization", "Bearer ts"}, {"Impersonate-User", who}}}
			// its first SubjectAccessReview is held at the owner, the alias moves, then that
			// review fails (a transient error): the retry belongs to the same request
			w.Clusters[old].ReviewMode = "hold-sar"
			w.Send(c.q)
			reqs = append(reqs, c)
			w.Clusters[old].ReviewMode = ""
			var heldPt *sim.Point
			for _, p := range w.Sc.Points() {
				if p.Kind == "review" {
					heldPt = p
				}
			}
			retrying := heldPt != nil
			floatOwner = ""
			moved := false
			if err := w.Apply(build(old)); err == nil {
				nw := cands[t.Draw(len(cands))]
				floatOwner = nw
				if err := w.Apply(build(nw)); err == nil {
					moved = true
					moves++
				} else {
					floatOwner = ""
				}
			} else {
				floatOwner = old
			}
			if heldPt != nil {
				r.Fault("review_transient_failure")
				w.Release(heldPt, Up500)
			}
			for g := 0; g < 8 && !c.q.Done; g++ {
				w.Advance(time.Second)
			}
			if retrying && moved {
				r.Probe("alias_moved_while_a_review_waited_to_retry")
			}
			r.Logf("mover %s: sent to %s (owner %s), retrying=%v, alias moved=%v -> now %q; status %d", who, floating, old, retrying, moved, floatOwner, c.q.Status)
		}
		w.Boundary()
	}
	r.SimSecs = w.Now().Seconds()

	// ---- oracle ------------------------------------------------------------
	valsWithin := func(h []verRec, from, to time.Duration) map[string]bool {
		out := map[string]bool{}
		for i, v := range h {
			end := time.Duration(1<<62 - 1)
			if i+1 < len(h) {
				end = h[i+1].at
			}
			if v.at <= to && end >= from {
				out[v.val] = true
			}
		}
		return out
	}
	obsByID := map[string][]*UpObs{}
	reviewsAtStep := map[int][]*UpObs{}
	for _, o := range w.UpObs() {
		switch o.Kind {
		case "proxied":
			obsByID[o.ID] = append(obsByID[o.ID], o)
		case "tokenreview", "sar":
			reviewsAtStep[o.Step] = append(reviewsAtStep[o.Step], o)
		}
	}
	nFwd, nDenied := 0, 0
	slack := 50 * time.Millisecond
	for _, c := range reqs {
		q := c.q
		if !q.Done {
			r.Violate("request_hung", "c12", "request %s never finished", q.ID)
			return
		}
		// reviews made while this request was being processed go to the request's own cluster
		for s := q.StartStep; s <= q.EndStep && !c.overlap; s++ {
			for _, o := range reviewsAtStep[s] {
				r.Checked("review_sent_to_own_cluster")
				if o.Cluster != c.owner {
					r.Violate("review_sent_to_other_cluster", o.Kind, "while request %s (host %s, cluster %q) was processed, a %s was sent to cluster %q", q.ID, c.host, c.owner, o.Kind, o.Cluster)
					return
				}
			}
		}
		obs := obsByID[q.ID]
		if len(obs) == 0 {
			nDenied++
			continue
		}
		nFwd++
		o := obs[0]
		r.Checked("forwarded_on_own_cluster_answer")
		if c.owner == "" || o.Cluster != c.owner {
			r.Violate("forwarded_to_other_cluster", "c12", "request %s to host %s (cluster %q) was forwarded to an upstream of cluster %q", q.ID, c.host, c.owner, o.Cluster)
			return
		}
		got, _ := observedIdentity(o)
		from := c.at - maxTTL - slack
		okUsers := valsWithin(userHist[c.owner][c.token], from, w.Now())
		delete(okUsers, "")
		if c.imp {
			allowed := valsWithin(impHist[c.owner], from, w.Now())["allow"]
			want := c.impUser
			if want == "" {
				want = "bob"
			}
			if got.user == want {
				if !allowed {
					r.Violate("impersonation_allowed_by_other_cluster", "c12", "request %s to %s (cluster %s) was forwarded as the impersonated user although %s never allowed it within the cache TTL; other clusters' policies: %v", q.ID, c.host, c.owner, c.owner, impHist)
					return
				}
				continue
			}
			r.Violate("impersonation_dropped", "c12", "request %s asked to impersonate %s but was forwarded as %q", q.ID, want, got.user)
			return
		}
		if !okUsers[got.user] {
			var others []string
			for n, h := range userHist {
				if n == c.owner {
					continue
				}
				for _, v := range h[c.token] {
					if v.val == got.user {
						others = append(others, n)
					}
				}
			}
			sort.Strings(others)
			sig := "unknown-identity"
			if len(others) > 0 {
				sig = "identity-of-other-cluster"
			}
			if extended && strings.HasPrefix(strings.ToLower(c.host), floating) {
				sig += "/moved-alias"
			}
			r.Violate("foreign_authentication_result", sig, "request %s to %s (cluster %s, token %s) reached %s's upstream as user %q; %s's own table said %v within the TTL window; that user belongs to %v",
				q.ID, c.host, c.owner, c.token, o.Cluster, got.user, c.owner, keys(okUsers), others)
			return
		}
	}
	r.ProbeN("forwarded_checked", nFwd)
	r.ProbeN("not_forwarded", nDenied)
	r.ProbeN("alias_moves", moves)
	r.ProbeN("same_question_to_two_clusters_at_once", twins)
	r.ProbeN("table_mutations", mutations)
	r.ProbeN("batches_of_requests_at_one_instant", sameInstant)
	r.ProbeN("first_question_to_a_fresh_cluster_after_another_was_stopped", churns)
	r.Nontrivial = nFwd > 1 && nCl > 1
	r.Sample = map[string]interface{}{"clusters": nCl, "requests": len(reqs), "ttl_success": ttlS.String(), "ttl_failure": ttlF.String(), "ttl_allow": ttlA.String(), "alias_moves": moves}
}

func keys(m map[string]bool) []string {
	var k []string
	for x := range m {
		k = append(k, x)
	}
	sort.Strings(k)
	return k
}
