// Package gw is the gateway data-plane world: the shipped handler chain,
// controller, informer, cluster manager, health probing, transports and
// dispatcher over in-bubble pipes, with scripted stub upstreams and raw-byte
// clients.
package gw

import (
	"errors"
	"fmt"
	"net"
	"sync"
)

var errListenerClosed = errors.New("simnet: listener closed")

// addrConn gives a pipe end TCP-style addresses (a bare pipe address makes the
// reverse proxy skip X-Forwarded-For, which would be a harness artefact).
type addrConn struct {
	net.Conn
	local, remote net.Addr
	onClose       func()
	once          sync.Once
}

func (c *addrConn) LocalAddr() net.Addr  { return c.local }
func (c *addrConn) RemoteAddr() net.Addr { return c.remote }
func (c *addrConn) Close() error {
	c.once.Do(func() {
		if c.onClose != nil {
			c.onClose()
		}
	})
	return c.Conn.Close()
}

func tcpAddr(ip string, port int) net.Addr {
	return &net.TCPAddr{IP: net.ParseIP(ip), Port: port}
}

// pipeListener hands the server ends of in-bubble pipes to an http.Server.
type pipeListener struct {
	ch     chan net.Conn
	closed chan struct{}
	once   sync.Once
	addr   net.Addr
}

func newPipeListener(addr net.Addr) *pipeListener {
	return &pipeListener{ch: make(chan net.Conn, 256), closed: make(chan struct{}), addr: addr}
}

func (l *pipeListener) Accept() (net.Conn, error) {
	select {
	case c := <-l.ch:
		return c, nil
	case <-l.closed:
		return nil, errListenerClosed
	}
}

func (l *pipeListener) Close() error {
	l.once.Do(func() { close(l.closed) })
	return nil
}

func (l *pipeListener) Addr() net.Addr { return l.addr }

// dial creates a connection to the listener and returns the client end.
func (l *pipeListener) dial(clientAddr net.Addr) (net.Conn, *addrConn, error) {
	select {
	case <-l.closed:
		return nil, nil, fmt.Errorf("dial %v: connection refused", l.addr)
	default:
	}
	c1, c2 := net.Pipe()
	srv := &addrConn{Conn: c2, local: l.addr, remote: clientAddr}
	cli := &addrConn{Conn: c1, local: clientAddr, remote: l.addr}
	select {
	case l.ch <- srv:
	default:
		c1.Close()
		c2.Close()
		return nil, nil, fmt.Errorf("dial %v: backlog full", l.addr)
	}
	return cli, srv, nil
}
