package gw

import (
	"context"
	"sync"

	metav1 "k8s.io/apimachinery/pkg/apis/meta/v1"
	"k8s.io/apimachinery/pkg/watch"

	gatewayclientset "github.com/kubewharf/kubegateway/pkg/client/kubernetes"
	typed "github.com/kubewharf/kubegateway/pkg/client/kubernetes/typed/proxy/v1alpha1"
)

// Gate holds back the watch stream of one informer (fault watch_delay): events
// are delivered in order, but only while the gate is open. The informer's
// owner then acts on a stale view, which is how name conflicts get past
// admission in production.
type Gate struct {
	mu   sync.Mutex
	held bool
	wake chan struct{}
}

func NewGate() *Gate { return &Gate{wake: make(chan struct{})} }

func (g *Gate) Hold() {
	g.mu.Lock()
	g.held = true
	g.mu.Unlock()
}

func (g *Gate) Held() bool {
	g.mu.Lock()
	defer g.mu.Unlock()
	return g.held
}

func (g *Gate) Open() {
	g.mu.Lock()
	if g.held {
		g.held = false
		close(g.wake)
		g.wake = make(chan struct{})
	}
	g.mu.Unlock()
}

func (g *Gate) pass() {
	for {
		g.mu.Lock()
		if !g.held {
			g.mu.Unlock()
			return
		}
		ch := g.wake
		g.mu.Unlock()
		<-ch
	}
}

type gatedClient struct {
	gatewayclientset.Interface
	gate *Gate
}

func (c *gatedClient) ProxyV1alpha1() typed.ProxyV1alpha1Interface {
	return &gatedProxy{c.Interface.ProxyV1alpha1(), c.gate}
}

type gatedProxy struct {
	typed.ProxyV1alpha1Interface
	gate *Gate
}

func (p *gatedProxy) UpstreamClusters() typed.UpstreamClusterInterface {
	return &gatedUpstreams{p.ProxyV1alpha1Interface.UpstreamClusters(), p.gate}
}

type gatedUpstreams struct {
	typed.UpstreamClusterInterface
	gate *Gate
}

func (u *gatedUpstreams) Watch(ctx context.Context, opts metav1.ListOptions) (watch.Interface, error) {
	inner, err := u.UpstreamClusterInterface.Watch(ctx, opts)
	if err != nil {
		return nil, err
	}
	out := make(chan watch.Event, 100)
	pw := watch.NewProxyWatcher(out)
	go func() {
		defer close(out)
		for {
			select {
			case ev, ok := <-inner.ResultChan():
				if !ok {
					return
				}
				u.gate.pass()
				select {
				case out <- ev:
				case <-pw.StopChan():
					inner.Stop()
					return
				}
			case <-pw.StopChan():
				inner.Stop()
				return
			}
		}
	}()
	return pw, nil
}
