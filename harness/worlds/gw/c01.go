package gw

import (
	"fmt"
	"strings"
	"time"

	proxyv1alpha1 "github.com/kubewharf/kubegateway/pkg/apis/proxy/v1alpha1"

	"kgsim/sim"
)

// ---- reference matcher, written from docs/en/design.md and the property text

type refReq struct {
	verb, group, resource, sub, name, path, user string
	groups                                       []string
	isResource                                   bool
}

// refList implements the documented list semantics: "*" matches everything;
// once a positive entry is present "-" entries are ignored; a list made only
// of "-" entries matches exactly what the corresponding positive list does
// not match.
func refList(list []string, pos func(entry string) bool) bool {
	for _, e := range list {
		if e == "*" {
			return true
		}
	}
	var positives, inverted []string
	for _, e := range list {
		if len(e) > 0 && e[0] == '-' {
			inverted = append(inverted, e[1:])
		} else {
			positives = append(positives, e)
		}
	}
	if len(positives) > 0 {
		for _, p := range positives {
			if pos(p) {
				return true
			}
		}
		return false
	}
	if len(inverted) == 0 {
		return false // an empty (required) list matches nothing
	}
	for _, n := range inverted {
		if pos(n) {
			return false
		}
	}
	return true
}

func refGlob(entry, val string) bool {
	if entry == val {
		return true
	}
	return strings.HasSuffix(entry, "*") && strings.HasPrefix(val, strings.TrimRight(entry, "*"))
}

func refRule(ru *proxyv1alpha1.DispatchPolicyRule, q *refReq) bool {
	if !refList(ru.Verbs, func(e string) bool { return e == q.verb }) {
		return false
	}
	// users / service accounts: both empty = everybody
	if len(ru.Users) > 0 || len(ru.ServiceAccounts) > 0 {
		m := false
		if len(ru.Users) > 0 {
			m = refList(ru.Users, func(e string) bool { return refGlob(e, q.user) })
		}
		for _, sa := range ru.ServiceAccounts {
			if sa.Namespace != "" && sa.Name != "" && "system:serviceaccount:"+sa.Namespace+":"+sa.Name == q.user {
				m = true
			}
		}
		if !m {
			return false
		}
	}
	if len(ru.UserGroups) > 0 {
		if !refList(ru.UserGroups, func(e string) bool {
			for _, g := range q.groups {
				if g == e {
					return true
				}
			}
			return false
		}) {
			return false
		}
	}
	if q.isResource {
		if !refList(ru.APIGroups, func(e string) bool { return e == q.group }) {
			return false
		}
		combined := q.resource
		if q.sub != "" {
			combined += "/" + q.sub
		}
		if !refList(ru.Resources, func(e string) bool {
			return e == combined || (q.sub != "" && e == "*/"+q.sub)
		}) {
			return false
		}
		if len(ru.ResourceNames) > 0 && !refList(ru.ResourceNames, func(e string) bool { return e == q.name }) {
			return false
		}
		return true
	}
	// non-resource request: only positive entries and "*" are defined
	for _, e := range ru.NonResourceURLs {
		if e == "*" {
			return true
		}
	}
	for _, e := range ru.NonResourceURLs {
		if len(e) > 0 && e[0] == '-' {
			continue
		}
		if refGlob(e, q.path) {
			return true
		}
	}
	return false
}

// refPolicy returns the index of the first policy with a matching rule, or -1.
func refPolicy(pols []proxyv1alpha1.DispatchPolicy, q *refReq) int {
	for i := range pols {
		for j := range pols[i].Rules {
			if refRule(&pols[i].Rules[j], q) {
				return i
			}
		}
	}
	return -1
}

// ---- workload -------------------------------------------------------------

type c01Req struct {
	q      *Req
	ref    refReq
	want   int // policy index, -1 = none
	wantEP string
	pols   string
	key    string
	ver    int
}

func pickList(draw func(int) int, alphabet []string, maxLen int) []string {
	n := 1 + draw(maxLen)
	var out []string
	for i := 0; i < n; i++ {
		out = append(out, alphabet[draw(len(alphabet))])
	}
	return out
}

// RunC01: first matching policy with the documented rule semantics.
func RunC01(r *sim.Run) {
	t := r.T
	w := NewWorld(r, defaultOpts())
	defer w.Stop()
	nPol := t.Range(1, 4)
	cl := w.AddClusterStub("alpha", nPol, 0)
	type who struct {
		token  string
		user   string
		groups []string
	}
	people := []who{
		{"", "system:anonymous", []string{"system:unauthenticated"}},
		{"t-alice", "alice", []string{"dev", "system:authenticated"}},
		{"t-bob", "bob", []string{"ops", "dev", "system:authenticated"}},
		{"t-sa", "system:serviceaccount:ns1:sa1", []string{"system:serviceaccounts", "system:serviceaccounts:ns1", "system:authenticated"}},
		{"t-al", "alfred", []string{"system:authenticated"}},
	}
	for _, p := range people {
		if p.token != "" {
			cl.Tokens[p.token] = Ident{User: p.user, Groups: p.groups}
		}
	}
	eps := w.EndpointsOf("alpha")

	verbsA := []string{"*", "get", "list", "create", "delete", "-get", "-list", "-delete", "-update"}
	groupsA := []string{"*", "", "apps", "batch", "-apps", "-batch", "-"}
	resA := []string{"*", "pods", "deployments", "jobs", "-pods", "-deployments", "pods/log", "pods/status", "*/status", "-pods/log", "-*/status", "*/log"}
	namesA := []string{"p1", "p2", "-p1", "-p2", "*"}
	usersA := []string{"alice", "bob", "al*", "-alice", "-bob", "-al*", "*", "system:serviceaccount:ns1:sa1", "system:*", "-system:anonymous"}
	ugA := []string{"dev", "ops", "-dev", "-ops", "*", "system:authenticated", "-system:unauthenticated", "-system:serviceaccounts"}
	nruA := []string{"/healthz", "/healthz/*", "/metrics*", "*", "/custom/*", "/version"}
	sasA := []proxyv1alpha1.ServiceAccountRef{{Namespace: "ns1", Name: "sa1"}, {Namespace: "ns2", Name: "sa1"}, {Namespace: "", Name: "sa1"}, {Namespace: "ns1", Name: ""}}

	genRule := func() proxyv1alpha1.DispatchPolicyRule {
		ru := proxyv1alpha1.DispatchPolicyRule{Verbs: pickList(t.Draw, verbsA, 3)}
		if t.Draw(4) == 0 {
			ru.NonResourceURLs = pickList(t.Draw, nruA, 2)
		} else {
			ru.APIGroups = pickList(t.Draw, groupsA, 2)
			ru.Resources = pickList(t.Draw, resA, 3)
			if t.Draw(3) == 0 {
				ru.ResourceNames = pickList(t.Draw, namesA, 2)
			}
		}
		if t.Draw(3) == 0 {
			ru.Users = pickList(t.Draw, usersA, 2)
		}
		if t.Draw(5) == 0 {
			ru.ServiceAccounts = []proxyv1alpha1.ServiceAccountRef{sasA[t.Draw(len(sasA))]}
		}
		if t.Draw(3) == 0 {
			ru.UserGroups = pickList(t.Draw, ugA, 2)
		}
		return ru
	}
	genPolicies := func() []proxyv1alpha1.DispatchPolicy {
		var pols []proxyv1alpha1.DispatchPolicy
		for i := 0; i < nPol; i++ {
			p := proxyv1alpha1.DispatchPolicy{UpstreamSubset: []string{eps[i]}} // disjoint subsets: the contacted stub names the policy
			for k := t.Range(1, 3); k > 0; k-- {
				p.Rules = append(p.Rules, genRule())
			}
			pols = append(pols, p)
		}
		return pols
	}
	obj := BaseCluster("alpha", eps)
	obj.Spec.DispatchPolicies = genPolicies()
	if err := w.Apply(obj); err != nil {
		r.Inconclusive("apply: " + firstLine(err.Error()))
		return
	}
	w.Boundary()
	w.Advance(100 * time.Millisecond)
	w.Boundary()

	type target struct {
		method, path       string
		verb, group, res   string
		sub, name, nonPath string
	}
	targets := []target{
		{"GET", "/api/v1/namespaces/ns1/pods/p1", "get", "", "pods", "", "p1", ""},
		{"GET", "/api/v1/namespaces/ns1/pods/p2", "get", "", "pods", "", "p2", ""},
		{"GET", "/api/v1/namespaces/ns1/pods", "list", "", "pods", "", "", ""},
		{"POST", "/api/v1/namespaces/ns1/pods", "create", "", "pods", "", "", ""},
		{"DELETE", "/api/v1/namespaces/ns1/pods/p1", "delete", "", "pods", "", "p1", ""},
		{"PUT", "/api/v1/namespaces/ns1/pods/p2", "update", "", "pods", "", "p2", ""},
		{"GET", "/api/v1/namespaces/ns1/pods/p1/log", "get", "", "pods", "log", "p1", ""},
		{"GET", "/api/v1/namespaces/ns1/pods/p1/status", "get", "", "pods", "status", "p1", ""},
		{"PUT", "/apis/apps/v1/namespaces/ns1/deployments/p1/status", "update", "apps", "deployments", "status", "p1", ""},
		{"GET", "/apis/apps/v1/namespaces/ns1/deployments", "list", "apps", "deployments", "", "", ""},
		{"GET", "/apis/apps/v1/namespaces/ns1/deployments/p2", "get", "apps", "deployments", "", "p2", ""},
		{"DELETE", "/apis/batch/v1/namespaces/ns1/jobs/p1", "delete", "batch", "jobs", "", "p1", ""},
		{"GET", "/apis/batch/v1/namespaces/ns1/jobs", "list", "batch", "jobs", "", "", ""},
		{"GET", "/healthz", "get", "", "", "", "", "/healthz"},
		{"GET", "/healthz/etcd", "get", "", "", "", "", "/healthz/etcd"},
		{"GET", "/metrics/cadvisor", "get", "", "", "", "", "/metrics/cadvisor"},
		{"POST", "/custom/a", "post", "", "", "", "", "/custom/a"},
		{"GET", "/version", "get", "", "", "", "", "/version"},
	}

	var reqs []*c01Req
	ver := 0
	reloads := 0
	n := t.Range(10, 40)
	for i := 0; i < n; i++ {
		if i > 0 && t.Draw(8) == 0 && reloads < 6 {
			// reload: new list, or a permutation of the current one
			reloads++
			ver++
			if t.Draw(2) == 0 {
				obj.Spec.DispatchPolicies = genPolicies()
			} else {
				pols := obj.Spec.DispatchPolicies
				for a := len(pols) - 1; a > 0; a-- {
					b := t.Draw(a + 1)
					pols[a], pols[b] = pols[b], pols[a]
				}
			}
			if err := w.Apply(obj); err != nil {
				r.Logf("reload rejected: %s", firstLine(err.Error()))
			}
			r.Logf("reload #%d", ver)
			w.Boundary()
		}
		tg := targets[t.Draw(len(targets))]
		p := people[t.Draw(len(people))]
		q := &Req{ID: fmt.Sprintf("m%d", i), Host: "alpha", Method: tg.method, Target: tg.path}
		if p.token != "" {
			q.Headers = append(q.Headers, [2]string{"Authorization", "Bearer " + p.token})
		}
		c := &c01Req{q: q, ver: ver, ref: refReq{verb: tg.verb, group: tg.group, resource: tg.res, sub: tg.sub, name: tg.name, path: tg.nonPath, user: p.user, groups: p.groups, isResource: tg.nonPath == ""}}
		c.key = tg.method + " " + tg.path + " as " + p.user
		stored := w.Latest("alpha").Spec.DispatchPolicies // as stored (after admission's normalisation)
		c.want = refPolicy(stored, &c.ref)
		c.pols = polDescObj(w.Latest("alpha"))
		if c.want >= 0 {
			c.wantEP = stored[c.want].UpstreamSubset[0]
		}
		w.Send(q)
		for g := 0; g < 5 && !q.Done; g++ {
			w.Advance(time.Second)
		}
		r.Logf("%s %s want=policy%d -> %d", q.ID, c.key, c.want, q.Status)
		w.Boundary()
		reqs = append(reqs, c)
	}
	r.SimSecs = w.Now().Seconds()

	// ---- oracle ------------------------------------------------------------
	obsByID := map[string][]*UpObs{}
	for _, o := range w.UpObs() {
		if o.Kind == "proxied" {
			obsByID[o.ID] = append(obsByID[o.ID], o)
		}
	}
	matched, unmatched := 0, 0
	seen := map[string]string{}
	for _, c := range reqs {
		q := c.q
		if !q.Done {
			r.Violate("request_hung", "c01", "request %s never finished", q.ID)
			return
		}
		obs := obsByID[q.ID]
		r.Checked("first_matching_policy")
		if c.want < 0 {
			unmatched++
			if len(obs) > 0 {
				r.Violate("unmatched_request_forwarded", ruleShape(c), "request %s (%s; verb=%s group=%q resource=%q sub=%q name=%q path=%q groups=%q) matches no policy of %s but was forwarded to %s",
					q.ID, c.key, c.ref.verb, c.ref.group, c.ref.resource, c.ref.sub, c.ref.name, c.ref.path, c.ref.groups, polDesc(w, c), obs[0].Endpoint)
				return
			}
			if q.Status < 400 {
				r.Violate("unmatched_request_not_rejected", "c01", "request %s matches no policy but the client got %d", q.ID, q.Status)
				return
			}
		} else {
			matched++
			if len(obs) == 0 {
				r.Violate("matching_request_not_forwarded", ruleShape(c), "request %s (%s; verb=%s group=%q resource=%q sub=%q name=%q path=%q groups=%q) matches policy %d of %s but was not forwarded (client got %d %q)",
					q.ID, c.key, c.ref.verb, c.ref.group, c.ref.resource, c.ref.sub, c.ref.name, c.ref.path, c.ref.groups, c.want, polDesc(w, c), q.Status, trunc(q.RespBody, 160))
				return
			}
			if obs[0].Endpoint != c.wantEP {
				got := -1
				for i, p := range w.Latest("alpha").Spec.DispatchPolicies {
					_ = p
					_ = i
				}
				_ = got
				r.Violate("wrong_policy", ruleShape(c), "request %s (%s; verb=%s group=%q resource=%q sub=%q name=%q path=%q groups=%q) must be handled under policy %d (upstream %s) of %s but went to %s",
					q.ID, c.key, c.ref.verb, c.ref.group, c.ref.resource, c.ref.sub, c.ref.name, c.ref.path, c.ref.groups, c.want, c.wantEP, c.pols, obs[0].Endpoint)
				return
			}
		}
		// history independence: same request under the same list => same decision
		dec := "none"
		if len(obs) > 0 {
			dec = obs[0].Endpoint
		}
		k := fmt.Sprintf("v%d|%s", c.ver, c.key)
		if prev, ok := seen[k]; ok && prev != dec {
			r.Violate("decision_depends_on_history", "c01", "request %q under the same policy list was routed to %s once and %s another time", c.key, prev, dec)
			return
		}
		seen[k] = dec
	}
	r.ProbeN("matched_requests", matched)
	r.ProbeN("unmatched_requests", unmatched)
	r.ProbeN("reloads", reloads)
	r.Nontrivial = matched > 0 && unmatched > 0
	r.Sample = map[string]interface{}{"policies": nPol, "requests": len(reqs), "reloads": reloads, "first_list": polDescObj(obj)}
}

func ruleShape(c *c01Req) string {
	if c.ref.isResource {
		return "resource"
	}
	return "non-resource"
}

func polDescObj(obj *proxyv1alpha1.UpstreamCluster) string {
	var parts []string
	for i, p := range obj.Spec.DispatchPolicies {
		var rs []string
		for _, ru := range p.Rules {
			rs = append(rs, fmt.Sprintf("{verbs=%q groups=%q res=%q names=%q users=%q sas=%v ug=%q nru=%q}", ru.Verbs, ru.APIGroups, ru.Resources, ru.ResourceNames, ru.Users, ru.ServiceAccounts, ru.UserGroups, ru.NonResourceURLs))
		}
		parts = append(parts, fmt.Sprintf("policy%d%s", i, strings.Join(rs, "|")))
	}
	return strings.Join(parts, " ; ")
}

func polDesc(w *World, c *c01Req) string { return c.pols }
