package gw

import (
	"fmt"
	"strings"
	"time"

	metav1 "k8s.io/apimachinery/pkg/apis/meta/v1"

	proxyv1alpha1 "github.com/kubewharf/kubegateway/pkg/apis/proxy/v1alpha1"

	"kgsim/sim"
)

type c15Req struct {
	q       *Req
	kind    string // stream | hold | review
	cluster string
	verb    string
	victim  bool
	rawAt   int // bytes the client had read at removal time
}

// RunC15: removal of a cluster or an endpoint cuts its traffic and nothing else.
func RunC15(r *sim.Run) {
	t := r.T
	w := NewWorld(r, Options{TokenSuccessTTL: 0, TokenFailureTTL: 0, AuthzAllowTTL: time.Minute, AuthzDenyTTL: time.Minute})
	if strings.Contains(r.Profile, "preempt") {
		w.EnablePreemption(uint64(t.Draw(1 << 30)))
		defer func() { r.ProbeN("preemptions_inside_gateway_code", w.Sc.Preempts) }()
	}
	defer w.Stop()
	alpha := w.AddClusterStub("alpha", 3, 0)
	beta := w.AddClusterStub("beta", 1, 1)
	for i := 0; i < 40; i++ {
		alpha.Tokens[fmt.Sprintf("ta%d", i)] = Ident{User: "alice"}
		beta.Tokens[fmt.Sprintf("ta%d", i)] = Ident{User: "bella"}
	}
	eps := w.EndpointsOf("alpha")
	e0, e1, e2 := eps[0], eps[1], eps[2]
	pol := func(verb string, sub []string) proxyv1alpha1.DispatchPolicy {
		return proxyv1alpha1.DispatchPolicy{UpstreamSubset: sub,
			Rules: []proxyv1alpha1.DispatchPolicyRule{{Verbs: []string{verb}, APIGroups: []string{"*"}, Resources: []string{"*"}}}}
	}
	a := BaseCluster("alpha", []string{e0, e1})
	a.Spec.DispatchPolicies = []proxyv1alpha1.DispatchPolicy{pol("get", []string{e0}), pol("list", []string{e1})}
	b := BaseCluster("beta", w.EndpointsOf("beta"))
	for _, o := range []*proxyv1alpha1.UpstreamCluster{a, b} {
		if err := w.Apply(o); err != nil {
			r.Inconclusive("apply: " + err.Error())
			return
		}
	}
	w.Boundary()
	w.Advance(100 * time.Millisecond)
	w.Boundary()

	// ---- earlier versions of alpha: the endpoints to be removed have a past ----
	for k := t.Draw(3); k > 0; k-- {
		ep := []string{e0, e1}[t.Draw(2)]
		a1 := a.DeepCopy()
		for i := range a1.Spec.Servers {
			if a1.Spec.Servers[i].Endpoint == ep {
				a1.Spec.Servers[i].Disabled = boolPtr(true)
			}
		}
		for _, o := range []*proxyv1alpha1.UpstreamCluster{a1, a} {
			if err := w.Apply(o.DeepCopy()); err != nil {
				r.Inconclusive("apply: " + err.Error())
				return
			}
			w.Boundary()
			w.Advance([]time.Duration{100 * time.Millisecond, 2 * time.Second, 6 * time.Second}[t.Draw(3)])
			w.Boundary()
		}
		r.Probe("endpoint_disabled_and_enabled_before_removal")
		r.Logf("history: %s disabled, then enabled again", ep)
	}

	// ---- requests in every phase of their life ---------------------------
	var reqs []*c15Req
	nReq := t.Range(3, 9)
	tok := 0
	piece := []byte(strings.Repeat("event-line\n", 40))
	send := func(cluster, verb, kind string) *c15Req {
		id := fmt.Sprintf("x%d", len(reqs))
		sc := &Script{Status: 200}
		switch kind {
		case "stream":
			sc.Stream = [][]byte{piece, piece, piece, piece, piece}
			sc.Body = []byte(strings.Repeat(string(piece), 5))
		case "hold":
			sc.Hold = true
			sc.Body = []byte("held")
		case "review":
			sc.Body = []byte("after-review")
		}
		w.SetScript(id, sc)
		target := "/api/v1/namespaces/default/pods/p"
		if verb == "list" {
			target = "/api/v1/namespaces/default/pods"
		}
		tok++
		q := &Req{ID: id, Host: cluster, Method: "GET", Target: target, Headers: [][2]string{{"Authorization", fmt.Sprintf("Bearer ta%d", tok)}}}
		c := &c15Req{q: q, kind: kind, cluster: cluster, verb: verb}
		reqs = append(reqs, c)
		if kind == "review" {
			w.Clusters[cluster].ReviewMode = "hold"
		}
		w.Send(q)
		w.Clusters[cluster].ReviewMode = ""
		r.Logf("send %s %s %s %s -> done=%v", id, cluster, verb, kind, q.Done)
		w.Boundary()
		return c
	}
	for i := 0; i < nReq; i++ {
		cluster, verb := "alpha", "get"
		switch t.Draw(5) {
		case 0:
			cluster = "beta"
		case 1, 2:
			verb = "list" // bystander endpoint e1
		}
		kind := []string{"stream", "stream", "hold", "review"}[t.Draw(4)]
		send(cluster, verb, kind)
	}
	// always one victim stream and one bystander stream of each kind
	send("alpha", "get", "stream")
	send("alpha", "list", "stream")
	send("beta", "get", "stream")
	// let some streams progress
	for k := t.Draw(6); k > 0; k-- {
		var st []*sim.Point
		for _, p := range w.Sc.Points() {
			if p.Kind == "stream" {
				st = append(st, p)
			}
		}
		if len(st) == 0 {
			break
		}
		p := st[t.Draw(len(st))]
		r.Logf("progress %s", p.Key)
		w.Release(p, UpRespond)
		w.Boundary()
	}
	if t.Draw(2) == 0 {
		w.Advance(time.Duration(t.Range(1, 4)) * time.Second)
		w.Boundary()
	}

	// ---- removal ----------------------------------------------------------
	removal := []string{"delete-cluster", "remove-endpoint", "replace-endpoint"}[t.Draw(3)]
	removedEP := map[string]bool{}
	switch removal {
	case "delete-cluster":
		removedEP[e0], removedEP[e1] = true, true
	default:
		removedEP[e0] = true
	}
	firstArrival := map[string]*UpObs{}
	for _, o := range w.UpObs() {
		if o.Kind == "proxied" && firstArrival[o.ID] == nil {
			firstArrival[o.ID] = o
		}
	}
	for _, c := range reqs {
		c.rawAt = c.q.Raw.Len()
		if o := firstArrival[c.q.ID]; o != nil && removedEP[o.Endpoint] && !c.q.Done {
			c.victim = true
		}
	}
	// the endpoint may be drained first: an update marks it disabled (requests in
	// flight go on, C15 says nothing else about them), a later update removes it
	if removal != "delete-cluster" && t.Draw(3) == 0 {
		a1 := a.DeepCopy()
		for i := range a1.Spec.Servers {
			if a1.Spec.Servers[i].Endpoint == e0 {
				a1.Spec.Servers[i].Disabled = boolPtr(true)
			}
		}
		a1.Spec.DispatchPolicies = []proxyv1alpha1.DispatchPolicy{pol("get", []string{e1}), pol("list", []string{e1})}
		if err := w.Apply(a1); err != nil {
			r.Inconclusive("apply: " + err.Error())
			return
		}
		w.Boundary()
		w.Advance([]time.Duration{100 * time.Millisecond, 2 * time.Second, 6 * time.Second}[t.Draw(3)])
		w.Boundary()
		r.Probe("endpoint_drained_before_removal")
		r.Logf("e0 disabled (drained) before its removal")
		// requests that ended during the drain are no victims of the removal
		for _, c := range reqs {
			if c.victim && c.q.Done {
				c.victim = false
			}
			c.rawAt = c.q.Raw.Len()
		}
	}
	removalAt := w.Now()
	switch removal {
	case "delete-cluster":
		w.Delete("alpha")
	case "remove-endpoint":
		a2 := BaseCluster("alpha", []string{e1})
		a2.Spec.DispatchPolicies = []proxyv1alpha1.DispatchPolicy{pol("get", []string{e1}), pol("list", []string{e1})}
		if err := w.Apply(a2); err != nil {
			r.Inconclusive("apply: " + err.Error())
			return
		}
	case "replace-endpoint":
		a2 := BaseCluster("alpha", []string{e2, e1})
		a2.Spec.DispatchPolicies = []proxyv1alpha1.DispatchPolicy{pol("get", []string{e2}), pol("list", []string{e1})}
		if err := w.Apply(a2); err != nil {
			r.Inconclusive("apply: " + err.Error())
			return
		}
	}
	r.Logf("REMOVAL %s at %v", removal, removalAt)
	w.Boundary()

	// in-flight requests to what was removed end at the client within 2 s, no further stimulus
	for i := 0; i < 4; i++ {
		w.Advance(500 * time.Millisecond)
		w.Boundary()
	}
	nVictims := 0
	for _, c := range reqs {
		if !c.victim {
			continue
		}
		nVictims++
		r.Checked("inflight_cut_within_2s")
		if !c.q.Done {
			r.Violate("inflight_request_left_hanging", removal+"/"+c.kind, "%s: request %s (%s, in flight to a removed endpoint) was still open at the client 2 s after the removal\n%s", removal, c.q.ID, c.kind, sim.Goroutines("dispatcher", "reverseproxy"))
			return
		}
		// a request whose upstream had not started to answer is terminated by the
		// gateway itself: its client gets a well-formed failure Status (or sees the
		// connection end), never a success the upstream did not send (C04)
		if c.kind == "hold" && c.q.ReadErr == "" {
			r.Checked("cut_request_answered_with_failure_status")
			st := statusOf(c.q)
			if c.q.Status < 500 || st == nil || int(st.Code) != c.q.Status || st.Status != metav1.StatusFailure {
				r.Violate("cut_request_not_answered_with_failure_status", fmt.Sprintf("%s/%d", removal, c.q.Status), "%s: request %s was held at the removed endpoint, which had not answered; its client received status %d with body %q instead of a failure Status", removal, c.q.ID, c.q.Status, firstLine(string(c.q.RespBody)))
				return
			}
		}
		// whatever a cut stream's client has received is what the upstream sent: a
		// prefix of its body, nothing appended by the gateway (C04)
		if c.kind == "stream" && c.q.Status == 200 {
			r.Checked("cut_stream_relays_only_upstream_bytes")
			full := strings.Repeat(string(piece), 5)
			if !strings.HasPrefix(full, string(c.q.RespBody)) {
				extra := string(c.q.RespBody)
				for i := 0; i < len(extra) && i < len(full); i++ {
					if extra[i] != full[i] {
						extra = extra[i:]
						break
					}
				}
				if len(c.q.RespBody) > len(full) && strings.HasPrefix(string(c.q.RespBody), full) {
					extra = string(c.q.RespBody[len(full):])
				}
				r.Violate("cut_stream_carries_bytes_the_upstream_never_sent", removal, "%s: request %s was streaming a response when its endpoint was removed; its client received %d bytes that are not a prefix of the upstream's body, beginning with %q", removal, c.q.ID, len(c.q.RespBody), trunc([]byte(extra), 120))
				return
			}
		}
		if c.kind == "stream" && c.q.ReadErr == "" && len(c.q.RespBody) == 5*len(piece) {
			r.Violate("inflight_request_completed_normally", removal, "request %s streamed to the end although its endpoint was removed", c.q.ID)
			return
		}
	}
	// the stubs saw those connections end
	for _, c := range reqs {
		if c.victim {
			r.Checked("upstream_connection_closed")
			if o := firstArrival[c.q.ID]; o != nil && !o.Done {
				// the handler is parked at a sim point: its request context must be done
				ended := false
				for _, p := range w.Sc.Points() {
					if po, ok := p.Data.(*UpObs); ok && po == o {
						ended = true // verified on release below
					}
				}
				_ = ended
			}
		}
	}

	// new requests
	nNew := t.Range(2, 5)
	var newReqs []*c15Req
	for i := 0; i < nNew; i++ {
		verb := []string{"get", "list"}[t.Draw(2)]
		id := fmt.Sprintf("n%d", i)
		w.SetScript(id, &Script{Status: 200, Body: []byte("new")})
		tok++
		target := "/api/v1/namespaces/default/pods/p"
		if verb == "list" {
			target = "/api/v1/namespaces/default/pods"
		}
		q := &Req{ID: id, Host: "alpha", Method: "GET", Target: target, Headers: [][2]string{{"Authorization", fmt.Sprintf("Bearer ta%d", tok%40)}}}
		w.Send(q)
		for g := 0; g < 4 && !q.Done; g++ {
			w.Advance(time.Second)
		}
		newReqs = append(newReqs, &c15Req{q: q, verb: verb, cluster: "alpha"})
		r.Logf("new %s %s -> %d", id, verb, q.Status)
		w.Boundary()
	}
	for _, o := range w.UpObs() {
		if o.Kind == "proxied" && strings.HasPrefix(o.ID, "n") {
			r.Checked("new_request_not_routed_to_removed")
			if removedEP[o.Endpoint] {
				r.Violate("new_request_routed_to_removed", removal, "%s: new request %s was delivered to removed endpoint %s", removal, o.ID, o.Endpoint)
				return
			}
		}
	}
	for _, c := range newReqs {
		if removal == "delete-cluster" {
			r.Checked("deleted_cluster_503")
			if c.q.Status != 503 {
				r.Violate("deleted_cluster_still_served", removal, "new request %s to the deleted cluster got %d %q, expected 503", c.q.ID, c.q.Status, trunc(c.q.RespBody, 120))
				return
			}
		} else if c.q.Status != 200 {
			r.Violate("remaining_endpoints_affected", removal, "new request %s to the cluster that only lost one endpoint got %d %q", c.q.ID, c.q.Status, trunc(c.q.RespBody, 160))
			return
		}
	}

	// bystanders: still open, next chunk arrives; victims' stub handlers see the end
	for round := 0; round < 12; round++ {
		pts := w.Sc.Points()
		if len(pts) == 0 {
			break
		}
		for _, p := range pts {
			o, _ := p.Data.(*UpObs)
			var c *c15Req
			for _, x := range reqs {
				if o != nil && x.q.ID == o.ID {
					c = x
				}
			}
			before := 0
			if c != nil {
				before = c.q.Raw.Len()
			}
			w.Release(p, UpRespond)
			if c == nil || o == nil {
				continue
			}
			prePick := firstArrival[c.q.ID] == nil
			switch {
			case c.victim:
				r.Checked("victim_stub_saw_close")
				if !o.CtxDone {
					r.Violate("upstream_not_cancelled", removal, "request %s: the removed endpoint's server never saw the proxied request being cancelled", c.q.ID)
					return
				}
			case p.Kind == "stream" && !prePick && !removedEP[o.Endpoint]:
				r.Checked("bystander_stream_continues")
				if c.q.Raw.Len() <= before || (c.q.Done && c.q.ReadErr != "") {
					r.Violate("bystander_stream_broken", removal, "%s: bystander stream %s (cluster %s via %s) did not receive its next chunk after the removal (done=%v err=%q)", removal, c.q.ID, c.cluster, o.Endpoint, c.q.Done, c.q.ReadErr)
					return
				}
			}
		}
		w.Boundary()
	}
	// requests that were still before the pick (parked in TokenReview) must now finish promptly
	for i := 0; i < 4; i++ {
		w.Advance(500 * time.Millisecond)
	}
	w.Boundary()
	for _, c := range reqs {
		r.Checked("everything_finishes")
		if !c.q.Done {
			r.Violate("request_left_hanging", removal+"/"+c.kind, "request %s (%s %s %s) never finished", c.q.ID, c.cluster, c.verb, c.kind)
			return
		}
		if !c.victim && c.kind != "review" && c.cluster == "beta" && (c.q.Status != 200 || c.q.ReadErr != "") {
			r.Violate("bystander_cluster_affected", removal, "request %s to the bystander cluster ended with %d err=%q", c.q.ID, c.q.Status, c.q.ReadErr)
			return
		}
	}

	// probing of what was removed stops; bystanders are still probed
	w.Advance(12 * time.Second)
	w.Boundary()
	lateRemoved, lateBy := 0, 0
	for _, o := range w.UpObs() {
		if o.Kind != "healthz" || o.At < removalAt+6500*time.Millisecond {
			continue
		}
		if removedEP[o.Endpoint] {
			lateRemoved++
		} else {
			lateBy++
		}
	}
	r.Checked("probing_stops")
	if lateRemoved > 0 {
		r.Violate("removed_endpoint_still_probed", removal, "%d health probes reached a removed endpoint more than 6.5 s after the removal", lateRemoved)
		return
	}
	if lateBy == 0 {
		r.Violate("bystander_probing_stopped", removal, "no health probe reached any remaining endpoint after the removal")
		return
	}
	// ---- things that exist for an instant -------------------------------------
	// A cluster is created and deleted again, or an endpoint added and removed
	// again, before anything has settled: the controller finds both events waiting.
	// What counts is the last one.
	if t.Draw(2) == 0 {
		var gone []string
		what := "short-lived-cluster"
		if removal != "delete-cluster" && t.Draw(2) == 0 {
			what = "short-lived-endpoint"
			cur := w.Latest("alpha")
			plus := cur.DeepCopy()
			plus.Spec.Servers = append(plus.Spec.Servers, proxyv1alpha1.UpstreamClusterServer{Endpoint: map[bool]string{true: e0, false: e2}[removal == "replace-endpoint"]})
			gone = []string{plus.Spec.Servers[len(plus.Spec.Servers)-1].Endpoint}
			w.NoWait = true
			err1 := w.Apply(plus)
			err2 := w.Apply(cur.DeepCopy())
			w.NoWait = false
			w.Quiesce()
			if err1 != nil || err2 != nil {
				r.Inconclusive(fmt.Sprintf("apply: %v %v", err1, err2))
				return
			}
		} else {
			w.AddClusterStub("gamma", t.Range(1, 3), 2)
			gone = w.EndpointsOf("gamma")
			g := BaseCluster("gamma", gone)
			w.NoWait = true
			err := w.Apply(g)
			if err == nil && t.Draw(2) == 0 {
				g2 := g.DeepCopy()
				g2.Labels = map[string]string{"touched": "1"}
				err = w.Apply(g2)
			}
			w.Delete("gamma")
			w.NoWait = false
			w.Quiesce()
			if err != nil {
				r.Inconclusive("apply: " + err.Error())
				return
			}
		}
		w.Boundary()
		goneAt := w.Now()
		r.Logf("%s: %v existed for an instant at %v", what, gone, goneAt)
		w.Advance(13 * time.Second)
		w.Boundary()
		r.Probe(what)
		if what == "short-lived-cluster" {
			w.SetScript("g0", &Script{Status: 200, Body: []byte("gamma")})
			q := &Req{ID: "g0", Host: "gamma", Method: "GET", Target: "/api/v1/namespaces/default/pods/p", Headers: [][2]string{{"Authorization", "Bearer ta1"}}}
			w.Send(q)
			for g := 0; g < 4 && !q.Done; g++ {
				w.Advance(time.Second)
			}
			w.Boundary()
			r.Checked("deleted_cluster_503")
			if q.Status != 503 {
				r.Violate("deleted_cluster_still_served", what, "a cluster was created and deleted in the same instant; 13 s later a request to it got %d %q, expected 503", q.Status, trunc(q.RespBody, 120))
				return
			}
		}
		isGone := map[string]bool{}
		for _, e := range gone {
			isGone[e] = true
		}
		late := 0
		for _, o := range w.UpObs() {
			if o.Kind == "healthz" && isGone[o.Endpoint] && o.At > goneAt+6500*time.Millisecond {
				late++
			}
		}
		r.Checked("probing_stops")
		if late > 0 {
			r.Violate("removed_endpoint_still_probed", what, "%s: %d health probes reached %v more than 6.5 s after it had been removed again", what, late, gone)
			return
		}
	}
	r.SimSecs = w.Now().Seconds()
	r.ProbeN("victims", nVictims)
	r.Probe("removal_" + removal)
	r.Nontrivial = nVictims > 0
	r.Sample = map[string]interface{}{"removal": removal, "requests": len(reqs), "victims": nVictims}
}
