package gw

import (
	"fmt"
	"sort"
	"strings"
	"time"

	proxyv1alpha1 "github.com/kubewharf/kubegateway/pkg/apis/proxy/v1alpha1"

	"kgsim/sim"
)

// RunC11: after any history the effective configuration equals that of a
// freshly started gateway given only the latest objects.
func RunC11(r *sim.Run) {
	t := r.T
	w := NewWorld(r, defaultOpts())
	defer w.Stop()
	if strings.Contains(r.Profile, "preempt") {
		w.EnablePreemption(uint64(t.Draw(1 << 30)))
		defer func() { r.ProbeN("preemptions_inside_gateway_code", w.Sc.Preempts) }()
	}
	certs := []*certSet{genCertSet("one"), genCertSet("two")}
	namePool := []string{"One.Example", "two.example", "SHARED.example", "shared.example", "x.example"}
	for _, h := range namePool {
		w.Hosts = append(w.Hosts, strings.ToLower(h)) // resolved in every snapshot (duplicates are harmless)
	}
	nCl := t.Range(1, 3)
	names := []string{"alpha", "beta", "gamma"}[:nCl]
	specs := map[string]*cspec{}
	hist := map[string]*aspectHistory{}
	live := map[string]bool{}
	takenBack := 0
	schemaNames := []string{"fc-a", "fc-b", "fc-c", ""}
	for ci, n := range names {
		w.AddClusterStub(n, 3, ci)
		c := &cspec{name: n, gates: map[string]bool{}}
		for i, e := range w.EndpointsOf(n) {
			c.servers = append(c.servers, srvSpec{ep: e, present: i < 2})
		}
		specs[n] = c
		hist[n] = newAspectHistory()
		if err := w.Apply(c.object(certs)); err != nil {
			r.Inconclusive("initial apply: " + firstLine(err.Error()))
			return
		}
		live[n] = true
	}
	w.Boundary()
	w.Advance(100 * time.Millisecond)
	w.Boundary()

	nSteps := t.Range(6, 40)
	versions, rejected, lagWrites, deletes, bursts := 0, 0, 0, 0, 0
	for step := 0; step < nSteps; step++ {
		switch t.Pick([]int{14, 2, 2, 5, 1}) {
		case 0: // new version of one cluster
			n := names[t.Draw(len(names))]
			if !live[n] {
				if err := w.Apply(specs[n].object(certs)); err == nil {
					live[n] = true
					r.Logf("recreate %s", n)
				}
				break
			}
			c := specs[n].clone()
			var desc string
			back := false
			if k := -1; t.Draw(4) == 0 {
				// an aspect returns to the value it had before its last change (A -> B -> A)
				if k = hist[n].pick(t.Draw); k >= 0 {
					desc = c.restoreAspect(hist[n].prev[k], k)
					back = true
				}
			}
			if !back {
				desc = c.mutate(t.Draw, w.EndpointsOf(n), namePool, len(certs))
			}
			// one time in three two versions are written back to back: nothing settles
			// between them, the controller finds both events waiting
			burst := t.Draw(3) == 0
			w.NoWait = burst
			if err := w.Apply(c.object(certs)); err != nil {
				rejected++
				r.Logf("%s: %s REJECTED %s", n, desc, firstLine(err.Error()))
			} else {
				versions++
				if w.AdmitGate.Held() {
					lagWrites++
				}
				hist[n].accepted(specs[n], c)
				if back {
					takenBack++
				}
				specs[n] = c
				r.Logf("%s v%d: %s", n, w.versions[n], desc)
				if burst {
					c2 := c.clone()
					desc2 := c2.mutate(t.Draw, w.EndpointsOf(n), namePool, len(certs))
					if err := w.Apply(c2.object(certs)); err != nil {
						rejected++
						r.Logf("%s: (at once) %s REJECTED %s", n, desc2, firstLine(err.Error()))
					} else {
						versions++
						bursts++
						hist[n].accepted(specs[n], c2)
						specs[n] = c2
						r.Logf("%s v%d (at once): %s", n, w.versions[n], desc2)
					}
				}
			}
			w.NoWait = false
			w.Quiesce()
		case 1: // admission's lister lags / catches up
			if w.AdmitGate.Held() {
				w.AdmitGate.Open()
			} else {
				w.AdmitGate.Hold()
				r.Fault("watch_delay")
			}
			r.Logf("admission lister held=%v", w.AdmitGate.Held())
		case 2: // controller's informer lags / catches up
			if w.CtlGate.Held() {
				w.CtlGate.Open()
			} else {
				w.CtlGate.Hold()
				r.Fault("watch_delay")
			}
			r.Logf("controller informer held=%v", w.CtlGate.Held())
		case 3:
			d := []time.Duration{500 * time.Millisecond, 2 * time.Second, 4 * time.Second, 6 * time.Second, 11 * time.Second}[t.Draw(5)]
			w.Advance(d)
			r.Logf("advance %v", d)
		case 4:
			n := names[t.Draw(len(names))]
			if live[n] {
				w.Delete(n)
				live[n] = false
				deletes++
				r.Logf("delete %s", n)
			}
		}
		w.Boundary()
	}
	// final quiescence: no lag, all requeues (3 x 5 s) over, probes done
	w.AdmitGate.Open()
	w.CtlGate.Open()
	w.Quiesce()
	for i := 0; i < 5; i++ {
		w.Advance(6 * time.Second)
	}
	w.Boundary()
	r.SimSecs = w.Now().Seconds()

	// two live latest objects claiming one name: which one serves it is C10's business
	claimed := map[string][]string{}
	for _, n := range names {
		if !live[n] {
			continue
		}
		seen := map[string]bool{}
		for _, s := range append([]string{n}, specs[n].serverNames...) {
			l := strings.ToLower(s)
			if !seen[l] {
				seen[l] = true
				claimed[l] = append(claimed[l], n)
			}
		}
	}
	conflict := false
	for _, owners := range claimed {
		if len(owners) > 1 {
			conflict = true
		}
	}
	if conflict {
		r.Probe("final_objects_conflict_skipped")
		r.Nontrivial = false
		return
	}

	// Known finding F-C10-1 (C10's, circular conflict): a cluster that still holds a name
	// its latest object gave up has had its updates refused because of a conflict; it and
	// every cluster whose latest object wants that name have not been brought to their
	// latest objects at all. C10 reports that state; it is not judged a second time here.
	if snaps := w.Snaps(); len(snaps) > 0 {
		last := snaps[len(snaps)-1]
		for h, d := range last.Resolve {
			if d == "" || !live[d] {
				continue
			}
			claims := false
			for _, o := range claimed[h] {
				if o == d {
					claims = true
				}
			}
			if !claims {
				r.Probe("stale_name_claim_F-C10-1_skipped")
				r.Nontrivial = false
				return
			}
		}
	}

	twin := w.Twin(w.LatestObjects())
	for i := 0; i < 3; i++ {
		w.Advance(6 * time.Second)
	}
	w.Boundary()
	var tlsNames []string
	for n := range claimed {
		tlsNames = append(tlsNames, n)
	}
	sort.Strings(tlsNames)
	diffs := 0
	for _, n := range names {
		got := describeCluster(w.Ctl, n, schemaNames, tlsNames)
		want := describeCluster(twin, n, schemaNames, tlsNames)
		r.Checked("cluster_equals_fresh_gateway")
		var ks []string
		for k := range want {
			ks = append(ks, k)
		}
		for k := range got {
			if _, ok := want[k]; !ok {
				ks = append(ks, k)
			}
		}
		sort.Strings(ks)
		for _, k := range ks {
			if got[k] != want[k] {
				diffs++
				aspect := k
				if i := strings.Index(k, "."); i > 0 {
					aspect = k[:i]
				}
				r.Violate("diverged_from_fresh_gateway", aspect, "cluster %s, %s: after the history the gateway has %q, a freshly started gateway given only the latest objects has %q (latest object: %s)", n, k, got[k], want[k], objBrief(w.Latest(n)))
				return
			}
		}
	}
	// name resolution equals the twin's
	for _, h := range tlsNames {
		r.Checked("resolution_equals_fresh_gateway")
		a, b := "", ""
		if info, ok := w.Ctl.Get(h); ok {
			a = info.Cluster
		}
		if info, ok := twin.Get(h); ok {
			b = info.Cluster
		}
		if a != b {
			r.Violate("diverged_from_fresh_gateway", "resolve", "host %s resolves to %q, in a freshly started gateway to %q", h, a, b)
			return
		}
	}
	r.ProbeN("versions_applied", versions)
	r.ProbeN("versions_rejected_by_admission", rejected)
	r.ProbeN("versions_written_back_to_back", bursts)
	r.ProbeN("versions_written_while_admission_lagged", lagWrites)
	r.ProbeN("deletes", deletes)
	r.ProbeN("aspect_taken_back_to_earlier_value", takenBack)
	r.Nontrivial = versions >= 3
	r.Sample = map[string]interface{}{"clusters": nCl, "versions": versions, "rejected": rejected, "deletes": deletes}
}

func objBrief(o *proxyv1alpha1.UpstreamCluster) string {
	if o == nil {
		return "<deleted>"
	}
	var sv []string
	for _, s := range o.Spec.Servers {
		d := ""
		if s.Disabled != nil && *s.Disabled {
			d = "(disabled)"
		}
		sv = append(sv, strings.TrimPrefix(s.Endpoint, "http://")+d)
	}
	var sch []string
	for _, s := range o.Spec.FlowControl.Schemas {
		sch = append(sch, s.Name)
	}
	return fmt.Sprintf("rv=%s servers=%v policies=%d schemas=%v annotations=%v logging=%q serverNames=%v cert=%v ca=%v", o.ResourceVersion, sv, len(o.Spec.DispatchPolicies), sch, o.Annotations, o.Spec.Logging.Mode, o.Spec.SecureServing.ServerNames, len(o.Spec.SecureServing.CertData) > 0, len(o.Spec.SecureServing.ClientCAData) > 0)
}
