package gw

import (
	"fmt"
	"math"
	"sort"
	"strings"
	"time"

	proxyv1alpha1 "github.com/kubewharf/kubegateway/pkg/apis/proxy/v1alpha1"

	"kgsim/sim"
)

// RunC05HTTP: a max-in-flight slot comes back however the proxied request ends.
func RunC05HTTP(r *sim.Run) {
	t := r.T
	w := NewWorld(r, defaultOpts())
	defer w.Stop()
	k := t.Range(1, 2)
	w.AddClusterStub("alpha", k, 0)
	w.AddClusterStub("beta", 1, 1)
	M := int32(t.Range(1, 3))
	build := func(m int32) *proxyv1alpha1.UpstreamCluster {
		a := BaseCluster("alpha", w.EndpointsOf("alpha"))
		a.Spec.FlowControl.Schemas = []proxyv1alpha1.FlowControlSchema{
			{Name: "lim", FlowControlSchemaConfiguration: proxyv1alpha1.FlowControlSchemaConfiguration{MaxRequestsInflight: &proxyv1alpha1.MaxRequestsInflightFlowControlSchema{Max: m}}},
			{Name: "other", FlowControlSchemaConfiguration: proxyv1alpha1.FlowControlSchemaConfiguration{MaxRequestsInflight: &proxyv1alpha1.MaxRequestsInflightFlowControlSchema{Max: 1}}},
		}
		a.Spec.DispatchPolicies = append([]proxyv1alpha1.DispatchPolicy{
			{FlowControlSchemaName: "lim", Rules: []proxyv1alpha1.DispatchPolicyRule{{Verbs: []string{"*"}, APIGroups: []string{"*"}, Resources: []string{"pods"}}}},
			{FlowControlSchemaName: "other", Rules: []proxyv1alpha1.DispatchPolicyRule{{Verbs: []string{"*"}, APIGroups: []string{"*"}, Resources: []string{"secrets"}}}},
		}, a.Spec.DispatchPolicies...)
		return a
	}
	if err := w.Apply(build(M)); err != nil {
		r.Inconclusive("apply: " + err.Error())
		return
	}
	b := BaseCluster("beta", w.EndpointsOf("beta"))
	b.Spec.FlowControl.Schemas = []proxyv1alpha1.FlowControlSchema{{Name: "lim", FlowControlSchemaConfiguration: proxyv1alpha1.FlowControlSchemaConfiguration{MaxRequestsInflight: &proxyv1alpha1.MaxRequestsInflightFlowControlSchema{Max: 1}}}}
	b.Spec.DispatchPolicies[0].FlowControlSchemaName = "lim"
	if err := w.Apply(b); err != nil {
		r.Inconclusive("apply: " + err.Error())
		return
	}
	w.Boundary()
	w.Advance(100 * time.Millisecond)
	w.Boundary()

	type lreq struct {
		q    *Req
		how  string
		sent int
	}
	var reqs []*lreq
	n := 0
	send := func(how string, resource, host string) *lreq {
		n++
		id := fmt.Sprintf("l%d", n)
		sc := &Script{Status: 200, Body: []byte("ok")}
		switch how {
		case "held", "reset", "truncate", "abort", "500held":
			sc.Hold = true
			sc.Body = []byte(strings.Repeat("x", 2000))
		case "500":
			sc.Status = 500
		}
		w.SetScript(id, sc)
		q := &Req{ID: id, Host: host, Method: "GET", Target: "/api/v1/namespaces/default/" + resource}
		w.Send(q)
		l := &lreq{q: q, how: how, sent: r.Step}
		reqs = append(reqs, l)
		return l
	}
	inflight := func() int {
		c := 0
		obs := map[string]bool{}
		for _, o := range w.UpObs() {
			if o.Kind == "proxied" && o.Cluster == "alpha" {
				obs[o.ID] = true
			}
		}
		for _, l := range reqs {
			if obs[l.q.ID] && !l.q.Done && strings.HasSuffix(l.q.Target, "/pods") && l.q.Host == "alpha" {
				c++
			}
		}
		return c
	}
	kinds := []string{"ok", "500", "held", "reset", "truncate", "abort", "noready", "500held"}
	admitted, refused, resizes := 0, 0, 0
	nSteps := t.Range(15, 60)
	for step := 0; step < nSteps && !r.Violated(); step++ {
		switch t.Pick([]int{10, 6, 1, 2, 1}) {
		case 0:
			how := kinds[t.Draw(len(kinds))]
			if how == "noready" {
				// every endpoint unreachable and unhealthy: the slot is taken before the pick fails
				for _, e := range w.EndpointsOf("alpha") {
					w.StubFor(e).Health, w.StubFor(e).DialMode = "500", "refused"
				}
				w.Advance(6 * time.Second)
				l := send("noready", "pods", "alpha")
				r.Logf("send %s noready -> %d", l.q.ID, l.q.Status)
				for _, e := range w.EndpointsOf("alpha") {
					w.StubFor(e).Health, w.StubFor(e).DialMode = "", ""
				}
				w.Advance(6 * time.Second)
				break
			}
			before := inflight()
			l := send(how, "pods", "alpha")
			r.Logf("send %s %s (in flight before %d/%d) -> done=%v status=%d", l.q.ID, how, before, M, l.q.Done, l.q.Status)
			if l.q.Done && l.q.Status == 429 {
				refused++
				r.Checked("refusal_is_429_status")
				st := statusOf(l.q)
				if st == nil || st.Code != 429 {
					r.Violate("bad_429", "c05", "refused request %s: body %q", l.q.ID, trunc(l.q.RespBody, 120))
					break
				}
				if before < int(M) {
					r.Violate("refused_below_limit", "c05", "request %s got 429 although only %d of %d slots were taken", l.q.ID, before, M)
				}
			} else {
				admitted++
			}
		case 1: // end a held request its own way
			pts := w.Sc.Points()
			if len(pts) == 0 {
				break
			}
			p := pts[t.Draw(len(pts))]
			o, _ := p.Data.(*UpObs)
			how := "held"
			var lr *lreq
			for _, l := range reqs {
				if o != nil && l.q.ID == o.ID {
					how, lr = l.how, l
				}
			}
			switch how {
			case "reset":
				r.Fault("conn_reset_before_response")
				w.Release(p, UpResetBefore)
			case "truncate":
				r.Fault("body_truncate")
				w.Release(p, UpTruncate)
			case "500held":
				r.Fault("upstream_5xx")
				w.Release(p, Up500)
			case "abort":
				if lr != nil {
					w.Abort(lr.q) // client goes away while the upstream holds the response
				}
				w.Advance(100 * time.Millisecond)
				w.Release(p, UpRespond)
			default:
				w.Release(p, UpRespond)
			}
			r.Logf("finish %s as %s", p.Key, how)
		case 2: // bystanders: other schema of the same cluster, same schema name of another cluster
			for _, x := range [][2]string{{"secrets", "alpha"}, {"pods", "beta"}} {
				l := send("ok", x[0], x[1])
				r.Checked("bystander_not_rejected")
				if l.q.Status != 200 {
					r.Violate("bystander_rejected", x[1]+"/"+x[0], "request under another schema/cluster (%s %s) got %d while schema lim of alpha had %d in flight", x[1], x[0], l.q.Status, inflight())
				}
			}
		case 3:
			w.Advance(time.Duration(t.Range(1, 3)) * time.Second)
		case 4: // resize while requests are in flight
			M = int32(t.Range(1, 3))
			resizes++
			if err := w.Apply(build(M)); err != nil {
				r.Logf("resize rejected: %v", err)
			}
			r.Logf("resize lim=%d", M)
		}
		w.Boundary()
		r.Checked("in_flight_within_limit")
		// after a shrink the requests admitted earlier may still be in flight: only growth beyond M by new admissions is a violation,
		// which the per-request check above (refused_below_limit / admission when full) covers; here the plain bound when no resize happened
		if resizes == 0 && inflight() > int(M) {
			r.Violate("limit_exceeded", "c05-http", "%d requests forwarded and unfinished under schema lim (limit %d)", inflight(), M)
		}
	}
	if r.Violated() {
		return
	}
	// drain, then exactly M slots must be available again
	for i := 0; i < 100; i++ {
		pts := w.Sc.Points()
		if len(pts) == 0 {
			break
		}
		w.Release(pts[0], UpRespond)
	}
	w.Advance(2 * time.Second)
	w.Boundary()
	for _, l := range reqs {
		if !l.q.Done {
			r.Violate("request_hung", "c05-http", "request %s (%s) never finished", l.q.ID, l.how)
			return
		}
	}
	r.Checked("slots_after_drain")
	var probes []*lreq
	for i := int32(0); i < M+1; i++ {
		probes = append(probes, send("held", "pods", "alpha"))
	}
	got := 0
	for _, p := range probes {
		if !(p.q.Done && p.q.Status == 429) {
			got++
		}
	}
	if got != int(M) {
		var hows []string
		for _, l := range reqs {
			hows = append(hows, l.how)
		}
		sort.Strings(hows)
		r.Violate("slots_after_drain", fmt.Sprintf("got%+d", got-int(M)), "after every request had finished, %d of %d concurrent probe requests were admitted (limit %d); requests ended as: %v", got, M+1, M, hows)
		return
	}
	r.SimSecs = w.Now().Seconds()
	r.ProbeN("admitted", admitted)
	r.ProbeN("refused_429", refused)
	r.ProbeN("resizes", resizes)
	r.Nontrivial = admitted > 0 && refused > 0
	r.Sample = map[string]interface{}{"limit": M, "requests": len(reqs), "admitted": admitted, "refused": refused}
}

// RunC06HTTP: token bucket through HTTP: refused => 429 Status, admitted => forwarded, bounds hold.
func RunC06HTTP(r *sim.Run) {
	t := r.T
	w := NewWorld(r, defaultOpts())
	defer w.Stop()
	w.AddClusterStub("alpha", 1, 0)
	qps := int32(t.Range(1, 5))
	burst := qps + int32(t.Draw(4))
	a := BaseCluster("alpha", w.EndpointsOf("alpha"))
	a.Spec.FlowControl.Schemas = []proxyv1alpha1.FlowControlSchema{{Name: "tb", FlowControlSchemaConfiguration: proxyv1alpha1.FlowControlSchemaConfiguration{TokenBucket: &proxyv1alpha1.TokenBucketFlowControlSchema{QPS: qps, Burst: burst}}}}
	a.Spec.DispatchPolicies[0].FlowControlSchemaName = "tb"
	if err := w.Apply(a); err != nil {
		r.Inconclusive("apply: " + err.Error())
		return
	}
	w.Boundary()
	w.Advance(100 * time.Millisecond)
	w.Boundary()
	type adm struct {
		at time.Duration
		ok bool
	}
	var hist []adm
	lastCall := time.Duration(-1)
	owed := 0
	n := 0
	nSteps := t.Range(10, 60)
	for step := 0; step < nSteps && !r.Violated(); step++ {
		if t.Draw(3) == 0 {
			d := []time.Duration{200 * time.Millisecond, time.Second, 3 * time.Second, 10 * time.Second}[t.Draw(4)]
			w.Advance(d)
			r.Logf("advance %v", d)
			if lastCall >= 0 {
				idle := (w.Now() - lastCall).Seconds()
				owed = int(math.Min(float64(burst), math.Floor(float64(qps)*idle-0.01)))
			}
			continue
		}
		n++
		id := fmt.Sprintf("t%d", n)
		w.SetScript(id, &Script{Status: 200, Body: []byte("ok")})
		q := &Req{ID: id, Host: "alpha", Method: "GET", Target: "/api/v1/namespaces/default/pods"}
		at := w.Now()
		w.Send(q)
		lastCall = w.Now()
		fwd := false
		for _, o := range w.UpObs() {
			if o.Kind == "proxied" && o.ID == id {
				fwd = true
			}
		}
		r.Checked("refused_iff_429")
		switch {
		case q.Status == 429:
			if st := statusOf(q); st == nil || st.Code != 429 || fwd {
				r.Violate("bad_429", "c06-http", "request %s: 429 body %q forwarded=%v", id, trunc(q.RespBody, 100), fwd)
			}
			if owed > 0 {
				r.Violate("stricter_than_configured", fmt.Sprintf("qps=%d burst=%d", qps, burst), "after an idle period %d more admissions were due but request %s got 429", owed, id)
			}
			hist = append(hist, adm{at, false})
		case q.Status == 200 && fwd:
			hist = append(hist, adm{at, true})
			if owed > 0 {
				owed--
			}
		default:
			r.Violate("neither_forwarded_nor_429", "c06-http", "request %s: status %d forwarded=%v", id, q.Status, fwd)
		}
		r.Logf("req %s at %v -> %d", id, at, q.Status)
		w.Boundary()
	}
	var ts []time.Duration
	for _, h := range hist {
		if h.ok {
			ts = append(ts, h.at)
		}
	}
	r.Checked("upper_bound_windows")
	for i := 0; i < len(ts); i++ {
		for j := i; j < len(ts); j++ {
			T := (ts[j] - ts[i]).Seconds() + 0.01 // request processing takes a few ms of fake time
			if float64(j-i+1) > float64(burst)+float64(qps)*T+1e-6 {
				r.Violate("too_many_admitted", fmt.Sprintf("qps=%d burst=%d", qps, burst), "%d requests forwarded within %.3fs (qps %d burst %d)", j-i+1, T, qps, burst)
				return
			}
		}
	}
	okN := len(ts)
	r.ProbeN("forwarded", okN)
	r.ProbeN("refused_429", len(hist)-okN)
	r.Nontrivial = okN > 0 && okN < len(hist)
	r.SimSecs = w.Now().Seconds()
	r.Sample = map[string]interface{}{"qps": qps, "burst": burst, "requests": len(hist), "forwarded": okN}
}

// RunC14HTTP: sequential token-authenticated requests of one policy are spread evenly.
func RunC14HTTP(r *sim.Run) {
	t := r.T
	w := NewWorld(r, Options{TokenSuccessTTL: []time.Duration{0, 10 * time.Minute}[t.Draw(2)], TokenFailureTTL: 10 * time.Second, AuthzAllowTTL: time.Minute, AuthzDenyTTL: time.Minute})
	defer w.Stop()
	k := t.Range(2, 4)
	cl := w.AddClusterStub("alpha", k, 0)
	cl.Tokens["tok"] = Ident{User: "alice"}
	eps := w.EndpointsOf("alpha")
	explicit := t.Draw(2) == 0
	a := BaseCluster("alpha", eps)
	if explicit {
		a.Spec.DispatchPolicies[0].UpstreamSubset = drawSubset(t.Draw, eps, false)
		if len(a.Spec.DispatchPolicies[0].UpstreamSubset) < 2 {
			a.Spec.DispatchPolicies[0].UpstreamSubset = append([]string(nil), eps...)
		}
	}
	if err := w.Apply(a); err != nil {
		r.Inconclusive("apply: " + err.Error())
		return
	}
	w.Boundary()
	w.Advance(100 * time.Millisecond)
	w.Boundary()
	kk := k
	if explicit {
		kk = len(a.Spec.DispatchPolicies[0].UpstreamSubset)
	}
	N := t.Range(kk, 40)
	var seq []string
	for i := 0; i < N; i++ {
		id := fmt.Sprintf("p%d", i)
		q := &Req{ID: id, Host: "alpha", Method: "GET", Target: "/api/v1/namespaces/default/pods"}
		if t.Draw(4) != 0 {
			q.Headers = [][2]string{{"Authorization", "Bearer tok"}} // authentication picks an endpoint too
		}
		w.Send(q)
		for _, o := range w.UpObs() {
			if o.Kind == "proxied" && o.ID == id {
				seq = append(seq, o.Endpoint)
			}
		}
	}
	slack := 0
	if !explicit {
		slack = 1 // one cursor per distinct ordering; the simulated map order is fixed (sorted) in this world
	}
	r.Checked("window_balanced")
	for a := 0; a < len(seq); a++ {
		for b := a + 1; b <= len(seq); b++ {
			cnt := map[string]int{}
			for _, e := range seq[a:b] {
				cnt[e]++
			}
			n := b - a
			lo, hi := n/kk, (n+kk-1)/kk
			for _, e := range eps {
				if explicit {
					in := false
					for _, s := range w.Latest("alpha").Spec.DispatchPolicies[0].UpstreamSubset {
						if s == e {
							in = true
						}
					}
					if !in {
						continue
					}
				}
				if cnt[e] < lo-slack || cnt[e] > hi+slack {
					r.Violate("uneven_spread", fmt.Sprintf("http explicit=%v k=%d", explicit, kk), "over %d consecutive proxied requests of the policy endpoint %s was chosen %d times, expected %d..%d: %v", n, e, cnt[e], lo, hi, short(seq[a:b]))
					return
				}
			}
		}
	}
	r.ProbeN("picks", len(seq))
	r.Nontrivial = len(seq) >= 4
	r.SimSecs = w.Now().Seconds()
	r.Sample = map[string]interface{}{"endpoints": k, "explicit": explicit, "picks": short(seq)}
}
