package gw

import (
	"fmt"
	"net/http"
	"time"

	"kgsim/sim"
)

// RunSmoke is a fixed scenario used to debug the world itself.
func RunSmoke(r *sim.Run) {
	w := NewWorld(r, defaultOpts())
	defer w.Stop()
	cl := w.AddClusterStub("alpha", 1, 0)
	cl.Tokens["tok1"] = Ident{User: "alice", Groups: []string{"dev"}}
	if err := w.Apply(BaseCluster("alpha", w.EndpointsOf("alpha"))); err != nil {
		r.Inconclusive("apply: " + err.Error())
		return
	}
	w.Boundary()
	w.Advance(100 * time.Millisecond)
	w.Boundary()
	body := genBytes(1, 200000)
	third := len(body) / 3
	w.SetScript("s1", &Script{Status: 418, Header: http.Header{}, Body: body})
	_ = third
	q := &Req{ID: "s1", Host: "alpha:6443", Method: "PATCH", Target: "/api/v1/namespaces/ns1/pods/x", Body: genBytes(2, 100)}
	w.Send(q)
	r.Logf("after send: done=%v status=%d raw=%d", q.Done, q.Status, q.Raw.Len())
	for i := 0; i < 10 && !q.Done; i++ {
		pts := w.Sc.Points()
		r.Logf("points: %d", len(pts))
		if len(pts) == 0 {
			w.Advance(time.Second)
			continue
		}
		w.Release(pts[0], UpRespond)
		r.Logf("released %s: done=%v raw=%d", pts[0].Key, q.Done, q.Raw.Len())
	}
	r.Logf("req done=%v status=%d err=%q body=%d raw=%d", q.Done, q.Status, q.ReadErr, len(q.RespBody), q.Raw.Len())
	for _, o := range w.UpObs() {
		r.Logf("up %s %s %s %s id=%s ctxdone=%v done=%v", o.Endpoint, o.Kind, o.Method, o.URI, o.ID, o.CtxDone, o.Done)
	}
	_ = fmt.Sprint
	r.Nontrivial = true
}
