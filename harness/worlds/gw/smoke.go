package gw

import (
	"fmt"
	"time"

	"kgsim/sim"
)

// RunSmoke is a fixed scenario used to debug the world itself.
func RunSmoke(r *sim.Run) {
	w := NewWorld(r, Options{TokenSuccessTTL: 10 * time.Second, TokenFailureTTL: 10 * time.Second, AuthzAllowTTL: 10 * time.Second, AuthzDenyTTL: 10 * time.Second})
	defer w.Stop()
	cl := w.AddClusterStub("alpha", 2, 0)
	cl.Tokens["tok1"] = Ident{User: "alice", Groups: []string{"dev"}}
	w.Hosts = []string{"alpha"}
	if err := w.Apply(BaseCluster("alpha", w.EndpointsOf("alpha"))); err != nil {
		r.Inconclusive("apply: " + err.Error())
		return
	}
	w.Snapshot()
	w.Sc.Advance(100 * time.Millisecond)
	s := w.Snapshot()
	r.Logf("snap: %+v resolve=%v", s.Clusters["alpha"].Endpoints, s.Resolve)
	for i := 0; i < 3; i++ {
		q := &Req{ID: fmt.Sprintf("r%d", i), Host: "alpha:6443", Method: "GET", Target: "/api/v1/namespaces/default/pods?b=2&a=1", Headers: [][2]string{{"Authorization", "Bearer tok1"}, {"Impersonate-Uid", "x"}}}
		w.Send(q)
		r.Logf("req %s done=%v status=%d err=%q body=%q", q.ID, q.Done, q.Status, q.ReadErr, string(q.RespBody))
	}
	for _, o := range w.UpObs() {
		r.Logf("up %s %s %s %s id=%s hdr=%v", o.Endpoint, o.Kind, o.Method, o.URI, o.ID, o.Header)
	}
	r.Nontrivial = true
}
