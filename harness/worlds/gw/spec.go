package gw

import (
	"crypto/ecdsa"
	"crypto/elliptic"
	"crypto/rand"
	"crypto/tls"
	"crypto/x509"
	"crypto/x509/pkix"
	"encoding/pem"
	"fmt"
	"math/big"
	"sort"
	"strings"
	"time"

	"k8s.io/apiserver/pkg/authentication/user"
	"k8s.io/apiserver/pkg/authorization/authorizer"
	"k8s.io/component-base/featuregate"

	proxyv1alpha1 "github.com/kubewharf/kubegateway/pkg/apis/proxy/v1alpha1"
	"github.com/kubewharf/kubegateway/pkg/clusters"
	"github.com/kubewharf/kubegateway/pkg/clusters/features"
	"github.com/kubewharf/kubegateway/pkg/gateway/controllers"
)

// certSet is one self-signed serving pair plus a client CA.
type certSet struct {
	cert, key, ca []byte
	certDER       []byte
	caSubject     string
}

func genCertSet(cn string) *certSet {
	mk := func(name string, isCA bool) ([]byte, []byte, []byte) {
		k, err := ecdsa.GenerateKey(elliptic.P256(), rand.Reader)
		if err != nil {
			panic(err)
		}
		tmpl := &x509.Certificate{SerialNumber: big.NewInt(int64(len(name)) + 7), Subject: pkix.Name{CommonName: name},
			NotBefore: time.Date(2000, 1, 1, 0, 0, 0, 0, time.UTC), NotAfter: time.Date(2100, 1, 1, 0, 0, 0, 0, time.UTC),
			KeyUsage: x509.KeyUsageDigitalSignature | x509.KeyUsageCertSign, BasicConstraintsValid: true, IsCA: isCA, DNSNames: []string{name}}
		der, err := x509.CreateCertificate(rand.Reader, tmpl, tmpl, &k.PublicKey, k)
		if err != nil {
			panic(err)
		}
		kb, _ := x509.MarshalECPrivateKey(k)
		return pem.EncodeToMemory(&pem.Block{Type: "CERTIFICATE", Bytes: der}), pem.EncodeToMemory(&pem.Block{Type: "EC PRIVATE KEY", Bytes: kb}), der
	}
	cs := &certSet{}
	cs.cert, cs.key, cs.certDER = mk(cn, false)
	ca, _, _ := mk("ca-"+cn, true)
	cs.ca = ca
	cs.caSubject = "ca-" + cn
	return cs
}

type schSpec struct {
	name     string
	kind     int // kMIF / kTB / kExempt (see below)
	m        int32
	qps      int32
	burst    int32
	strategy proxyv1alpha1.LimitStrategy
}

const (
	sMIF = iota
	sTB
	sExempt
)

type polSpec struct {
	verbs   []string
	subset  []string
	schema  string
	logMode proxyv1alpha1.LogMode
}

type cspec struct {
	name        string
	servers     []srvSpec
	policies    []polSpec
	schemas     []schSpec
	annot       int // 0 nil map, 1 empty map, 2 unrelated key only, 3 gates
	gates       map[string]bool
	logging     proxyv1alpha1.LogMode
	cert        int // 0 none, 1.. index into certs
	ca          int
	serverNames []string
}

func (c *cspec) clone() *cspec {
	n := *c
	n.servers = append([]srvSpec(nil), c.servers...)
	n.policies = nil
	for _, p := range c.policies {
		p.verbs = append([]string(nil), p.verbs...)
		p.subset = append([]string(nil), p.subset...)
		n.policies = append(n.policies, p)
	}
	n.schemas = append([]schSpec(nil), c.schemas...)
	n.gates = map[string]bool{}
	for k, v := range c.gates {
		n.gates[k] = v
	}
	n.serverNames = append([]string(nil), c.serverNames...)
	return &n
}

func (c *cspec) object(certs []*certSet) *proxyv1alpha1.UpstreamCluster {
	o := BaseCluster(c.name, nil)
	for _, s := range c.servers {
		if !s.present {
			continue
		}
		sv := proxyv1alpha1.UpstreamClusterServer{Endpoint: s.ep}
		if s.disabled {
			sv.Disabled = boolPtr(true)
		}
		o.Spec.Servers = append(o.Spec.Servers, sv)
	}
	o.Spec.DispatchPolicies = nil
	for _, p := range c.policies {
		o.Spec.DispatchPolicies = append(o.Spec.DispatchPolicies, proxyv1alpha1.DispatchPolicy{
			UpstreamSubset: append([]string(nil), p.subset...), FlowControlSchemaName: p.schema, LogMode: p.logMode,
			Rules: []proxyv1alpha1.DispatchPolicyRule{{Verbs: append([]string(nil), p.verbs...), APIGroups: []string{"*"}, Resources: []string{"*"}}},
		})
	}
	// catch-all last
	o.Spec.DispatchPolicies = append(o.Spec.DispatchPolicies, proxyv1alpha1.DispatchPolicy{
		Rules: []proxyv1alpha1.DispatchPolicyRule{{Verbs: []string{"*"}, APIGroups: []string{"*"}, Resources: []string{"*"}}, {Verbs: []string{"*"}, NonResourceURLs: []string{"*"}}}})
	for _, s := range c.schemas {
		fs := proxyv1alpha1.FlowControlSchema{Name: s.name, Strategy: s.strategy}
		switch s.kind {
		case sMIF:
			fs.MaxRequestsInflight = &proxyv1alpha1.MaxRequestsInflightFlowControlSchema{Max: s.m}
		case sTB:
			fs.TokenBucket = &proxyv1alpha1.TokenBucketFlowControlSchema{QPS: s.qps, Burst: s.burst}
		case sExempt:
			fs.Exempt = &proxyv1alpha1.ExemptFlowControlSchema{}
		}
		o.Spec.FlowControl.Schemas = append(o.Spec.FlowControl.Schemas, fs)
	}
	switch c.annot {
	case 1:
		o.Annotations = map[string]string{}
	case 2:
		o.Annotations = map[string]string{"example.com/other": "x"}
	case 3:
		var kv []string
		for k, v := range c.gates {
			kv = append(kv, fmt.Sprintf("%s=%v", k, v))
		}
		sort.Strings(kv)
		o.Annotations = map[string]string{features.FeatureGateAnnotationKey: strings.Join(kv, ","), "example.com/other": "x"}
	}
	o.Spec.Logging.Mode = c.logging
	if c.cert > 0 {
		o.Spec.SecureServing.CertData = certs[c.cert-1].cert
		o.Spec.SecureServing.KeyData = certs[c.cert-1].key
	}
	if c.ca > 0 {
		o.Spec.SecureServing.ClientCAData = certs[c.ca-1].ca
	}
	o.Spec.SecureServing.ServerNames = append([]string(nil), c.serverNames...)
	return o
}

// mutate changes one hot-reloadable aspect; it returns a description.
func (c *cspec) mutate(draw func(int) int, allEPs []string, namePool []string, nCerts int) string {
	pick := func(w []int) int {
		tot := 0
		for _, x := range w {
			tot += x
		}
		v := draw(tot)
		for i, x := range w {
			if v < x {
				return i
			}
			v -= x
		}
		return 0
	}
	presentEPs := func() []string {
		var out []string
		for _, s := range c.servers {
			if s.present {
				out = append(out, s.ep)
			}
		}
		return out
	}
	fixSubsets := func() {
		pres := map[string]bool{}
		for _, e := range presentEPs() {
			pres[e] = true
		}
		for i := range c.policies {
			var keep []string
			for _, e := range c.policies[i].subset {
				if pres[e] {
					keep = append(keep, e)
				}
			}
			c.policies[i].subset = keep
		}
	}
	fixSchemas := func() {
		have := map[string]bool{}
		for _, s := range c.schemas {
			have[s.name] = true
		}
		for i := range c.policies {
			if !have[c.policies[i].schema] {
				c.policies[i].schema = ""
			}
		}
	}
	switch pick([]int{4, 4, 5, 5, 2, 3, 3}) {
	case 0: // servers
		s := &c.servers[draw(len(c.servers))]
		if draw(2) == 0 {
			s.disabled = !s.disabled
			return fmt.Sprintf("server %s disabled=%v", s.ep, s.disabled)
		}
		if s.present && len(presentEPs()) > 1 {
			s.present = false
		} else {
			s.present = true
		}
		fixSubsets()
		return fmt.Sprintf("server %s present=%v", s.ep, s.present)
	case 1: // policies
		verbs := [][]string{{"get"}, {"list"}, {"create", "update"}, {"delete"}, {"watch"}}
		if len(c.policies) > 0 && draw(3) == 0 {
			i := draw(len(c.policies))
			c.policies = append(c.policies[:i], c.policies[i+1:]...)
			return "policy removed"
		}
		p := polSpec{verbs: verbs[draw(len(verbs))], subset: drawSubset(draw, presentEPs(), true), logMode: []proxyv1alpha1.LogMode{"", "on", "off"}[draw(3)]}
		if len(c.schemas) > 0 && draw(2) == 0 {
			p.schema = c.schemas[draw(len(c.schemas))].name
		}
		if len(c.policies) > 0 && draw(2) == 0 {
			c.policies[draw(len(c.policies))] = p
			return fmt.Sprintf("policy replaced %v", p.verbs)
		}
		c.policies = append([]polSpec{p}, c.policies...)
		if len(c.policies) > 4 {
			c.policies = c.policies[:4]
		}
		return fmt.Sprintf("policy added %v", p.verbs)
	case 2: // flow control schemas
		names := []string{"fc-a", "fc-b", "fc-c"}
		if len(c.schemas) > 0 && draw(4) == 0 {
			i := draw(len(c.schemas))
			n := c.schemas[i].name
			c.schemas = append(c.schemas[:i], c.schemas[i+1:]...)
			fixSchemas()
			return "schema removed " + n
		}
		s := schSpec{name: names[draw(len(names))], kind: draw(3), m: int32(draw(6)), qps: int32(1 + draw(50))}
		s.burst = s.qps + int32(draw(20))
		s.strategy = []proxyv1alpha1.LimitStrategy{"", proxyv1alpha1.LocalLimit}[draw(2)]
		for i := range c.schemas {
			if c.schemas[i].name == s.name {
				c.schemas[i] = s
				return fmt.Sprintf("schema changed %s kind=%d", s.name, s.kind)
			}
		}
		c.schemas = append(c.schemas, s)
		return fmt.Sprintf("schema added %s kind=%d", s.name, s.kind)
	case 3: // feature gates
		c.annot = draw(4)
		if c.annot == 3 {
			gs := []string{"DenyAllRequests", "CloseConnectionWhenIdle", "Tracing", "GlobalRateLimiter"}
			c.gates = map[string]bool{}
			for k := draw(3); k >= 0; k-- {
				c.gates[gs[draw(len(gs))]] = draw(2) == 0
			}
			return fmt.Sprintf("gates %v", c.gates)
		}
		c.gates = map[string]bool{}
		return fmt.Sprintf("annotations mode %d", c.annot)
	case 4:
		c.logging = []proxyv1alpha1.LogMode{"", "on", "off"}[draw(3)]
		return "logging " + string(c.logging)
	case 5:
		c.cert = draw(nCerts + 1)
		c.ca = draw(nCerts + 1)
		return fmt.Sprintf("tls cert=%d ca=%d", c.cert, c.ca)
	default:
		n := draw(3)
		c.serverNames = nil
		for i := 0; i < n; i++ {
			c.serverNames = append(c.serverNames, namePool[draw(len(namePool))])
		}
		return fmt.Sprintf("serverNames %v", c.serverNames)
	}
}

// describeCluster returns the effective configuration of one cluster as seen
// through public accessors and behaviour probes, in canonical text form.
func describeCluster(ctl *controllers.UpstreamClusterController, name string, schemaNames []string, tlsNames []string) map[string]string {
	out := map[string]string{}
	info, ok := ctl.Get(name)
	if !ok || info.Cluster != strings.ToLower(name) {
		out["present"] = "false"
		return out
	}
	out["present"] = "true"
	var eps []string
	info.Endpoints.Range(func(ep string, e *clusters.EndpointInfo) bool {
		eps = append(eps, fmt.Sprintf("%s disabled=%v", ep, e.IstDisabled()))
		return true
	})
	sort.Strings(eps)
	out["endpoints"] = strings.Join(eps, "; ")
	sn := info.LoadServerNames()
	out["serverNames"] = strings.Join(sn, ",")
	for _, g := range []string{"DenyAllRequests", "CloseConnectionWhenIdle", "Tracing", "GlobalRateLimiter"} {
		out["gate."+g] = fmt.Sprint(info.FeatureEnabled(featuregateFeature(g)))
	}
	for _, s := range schemaNames {
		fc := info.GetFlowSchema(s)
		out["schema."+s] = fmt.Sprintf("%s type=%v", fc.String(), fc.Type())
	}
	if cfg, ok := info.LoadTLSConfig(); ok {
		var certs []string
		for _, c := range cfg.Certificates {
			if len(c.Certificate) > 0 {
				certs = append(certs, fmt.Sprintf("%x", c.Certificate[0][:12]))
			}
		}
		ca := ""
		if cfg.ClientCAs != nil {
			ca = poolSubjects(cfg.ClientCAs)
		}
		out["tls"] = fmt.Sprintf("certs=%v clientCAs=%s", certs, ca)
	} else {
		out["tls"] = "none"
	}
	if vo, ok := info.LoadVerifyOptions(); ok {
		out["verify"] = "roots=" + poolSubjects(vo.Roots)
	} else {
		out["verify"] = "none"
	}
	// routing behaviour on a probe set
	for _, verb := range []string{"get", "list", "create", "update", "delete", "watch"} {
		for _, res := range []string{"pods", "secrets"} {
			attrs := authorizer.AttributesRecord{User: &user.DefaultInfo{Name: "alice", Groups: []string{"system:authenticated"}}, Verb: verb,
				APIVersion: "v1", Resource: res, Namespace: "ns1", ResourceRequest: true, Path: "/api/v1/namespaces/ns1/" + res}
			picker, err := info.MatchAttributes(attrs)
			k := "route." + verb + "." + res
			if err != nil {
				out[k] = "error: " + err.Error()
				continue
			}
			set := map[string]bool{}
			perr := ""
			for i := 0; i < 8; i++ {
				ep, err := picker.Pop()
				if err != nil {
					perr = err.Error()
					if i := strings.Index(perr, ":"); i > 0 {
						perr = perr[:i]
					}
					break
				}
				set[ep.Endpoint] = true
			}
			out[k] = fmt.Sprintf("schema=%s log=%v limiter=%s endpoints=%v %s", picker.FlowControlName(), picker.EnableLog(), picker.FlowControl().String(), keys(set), perr)
		}
	}
	_ = tls.VersionTLS12
	return out
}

func poolSubjects(p *x509.CertPool) string {
	var s []string
	for _, raw := range p.Subjects() { //nolint:staticcheck
		var n pkix.RDNSequence
		_ = n
		s = append(s, fmt.Sprintf("%x", raw))
	}
	sort.Strings(s)
	return strings.Join(s, ",")
}

func featuregateFeature(g string) featuregate.Feature { return featuregate.Feature(g) }

const nAspects = 7

// aspectKey is the canonical text of one hot-reloadable aspect of the spec.
func (c *cspec) aspectKey(k int) string {
	switch k {
	case 0:
		return fmt.Sprint(c.servers)
	case 1:
		return fmt.Sprint(c.policies)
	case 2:
		return fmt.Sprint(c.schemas)
	case 3:
		var kv []string
		for g, v := range c.gates {
			kv = append(kv, fmt.Sprintf("%s=%v", g, v))
		}
		sort.Strings(kv)
		return fmt.Sprintf("%d %v", c.annot, kv)
	case 4:
		return string(c.logging)
	case 5:
		return fmt.Sprintf("%d/%d", c.cert, c.ca)
	default:
		return fmt.Sprint(c.serverNames)
	}
}

// restoreAspect copies aspect k from an earlier version of the same cluster
// (an A -> B -> A history for that aspect).
func (c *cspec) restoreAspect(from *cspec, k int) string {
	f := from.clone()
	switch k {
	case 0:
		c.servers = f.servers
	case 1:
		c.policies = f.policies
	case 2:
		c.schemas = f.schemas
	case 3:
		c.annot, c.gates = f.annot, f.gates
	case 4:
		c.logging = f.logging
	case 5:
		c.cert, c.ca = f.cert, f.ca
	default:
		c.serverNames = f.serverNames
	}
	return fmt.Sprintf("aspect %d back to its earlier value %s", k, c.aspectKey(k))
}

// aspectHistory remembers, per aspect, the version just before its last
// accepted change.
type aspectHistory struct {
	prev [nAspects]*cspec
	last int // aspect changed most recently (-1: none)
}

func newAspectHistory() *aspectHistory { return &aspectHistory{last: -1} }

func (h *aspectHistory) accepted(old, cur *cspec) {
	for k := 0; k < nAspects; k++ {
		if old.aspectKey(k) != cur.aspectKey(k) {
			h.prev[k] = old.clone()
			h.last = k
		}
	}
}

// pick draws an aspect to take back (the most recently changed one half of the
// time); -1 if nothing changed yet.
func (h *aspectHistory) pick(draw func(int) int) int {
	var have []int
	for k := 0; k < nAspects; k++ {
		if h.prev[k] != nil {
			have = append(have, k)
		}
	}
	if len(have) == 0 {
		return -1
	}
	if h.last >= 0 && draw(2) == 0 {
		return h.last
	}
	return have[draw(len(have))]
}
