package gw

import (
	"encoding/json"
	"fmt"
	"sort"
	"strings"
	"time"

	metav1 "k8s.io/apimachinery/pkg/apis/meta/v1"

	proxyv1alpha1 "github.com/kubewharf/kubegateway/pkg/apis/proxy/v1alpha1"

	"kgsim/sim"
)

func defaultOpts() Options {
	return Options{TokenSuccessTTL: 10 * time.Minute, TokenFailureTTL: 10 * time.Second, AuthzAllowTTL: 5 * time.Minute, AuthzDenyTTL: 30 * time.Second}
}

// Boundary ends a step: quiescence, snapshot, next step number.
func (w *World) Boundary() *Snap {
	w.Quiesce()
	// canonical log of what the upstreams saw in this step (sorted: the order
	// of same-instant arrivals is not owned by the tape)
	w.mu.Lock()
	var lines []string
	for _, o := range w.upObs[w.logged:] {
		lines = append(lines, fmt.Sprintf("  up %s %s %s id=%s", strings.TrimPrefix(o.Endpoint, "http://"), o.Kind, o.Method, o.ID))
	}
	w.logged = len(w.upObs)
	w.mu.Unlock()
	sort.Strings(lines)
	for _, l := range lines {
		w.R.Logf("%s", l)
	}
	s := w.Snapshot()
	w.R.Step++
	return s
}

func statusOf(q *Req) *metav1.Status {
	var st metav1.Status
	if json.Unmarshal(q.RespBody, &st) != nil || st.Kind != "Status" {
		return nil
	}
	return &st
}

type srvSpec struct {
	ep       string
	disabled bool
	present  bool
}

func boolPtr(b bool) *bool { return &b }

// RunC03: endpoint selection under spec updates, health flaps and in-flight requests.
func RunC03(r *sim.Run) {
	t := r.T
	faults := !strings.Contains(r.Profile, "nofault")
	w := NewWorld(r, defaultOpts())
	if strings.Contains(r.Profile, "preempt") {
		w.EnablePreemption(uint64(t.Draw(1 << 30)))
		defer func() { r.ProbeN("preemptions_inside_gateway_code", w.Sc.Preempts) }()
	}
	defer w.Stop()
	k := t.Range(1, 4)
	cl := w.AddClusterStub("alpha", k, 0)
	cl.Tokens["tok"] = Ident{User: "alice", Groups: []string{"dev"}}
	eps := w.EndpointsOf("alpha")
	srv := make([]*srvSpec, k)
	for i, e := range eps {
		srv[i] = &srvSpec{ep: e, present: true}
	}
	// two policies told apart by verb: get -> subset A (maybe empty = all), list -> subset B
	subsetA := drawSubset(t.Draw, eps, true)
	subsetB := drawSubset(t.Draw, eps, true)
	subsetC := drawSubset(t.Draw, eps, true)
	swapped, hasFront, frontVerb := false, false, "get"
	build := func() *proxyv1alpha1.UpstreamCluster {
		var present []string
		obj := BaseCluster("alpha", nil)
		for _, s := range srv {
			if s.present {
				present = append(present, s.ep)
				sv := proxyv1alpha1.UpstreamClusterServer{Endpoint: s.ep}
				if s.disabled {
					sv.Disabled = boolPtr(true)
				}
				obj.Spec.Servers = append(obj.Spec.Servers, sv)
			}
		}
		inter := func(sub []string) []string {
			var out []string
			for _, e := range sub {
				for _, p := range present {
					if p == e {
						out = append(out, e)
					}
				}
			}
			return out
		}
		pol := func(verb string, sub []string) proxyv1alpha1.DispatchPolicy {
			return proxyv1alpha1.DispatchPolicy{UpstreamSubset: sub,
				Rules: []proxyv1alpha1.DispatchPolicyRule{{Verbs: []string{verb}, APIGroups: []string{"*"}, Resources: []string{"*"}}}}
		}
		obj.Spec.DispatchPolicies = []proxyv1alpha1.DispatchPolicy{pol("get", inter(subsetA)), pol("list", inter(subsetB))}
		if swapped {
			obj.Spec.DispatchPolicies = []proxyv1alpha1.DispatchPolicy{pol("list", inter(subsetB)), pol("get", inter(subsetA))}
		}
		if hasFront {
			// a policy put in front of the others takes the verb over: every position shifts
			obj.Spec.DispatchPolicies = append([]proxyv1alpha1.DispatchPolicy{pol(frontVerb, inter(subsetC))}, obj.Spec.DispatchPolicies...)
		}
		return obj
	}
	// one run in three the cluster's first two versions are written back to back (the
	// second one disables a server): the controller finds the creation and the update
	// waiting at the same time
	w.NoWait = t.Draw(3) == 0
	if err := w.Apply(build()); err != nil {
		w.NoWait = false
		r.Inconclusive("initial apply: " + err.Error())
		return
	}
	if w.NoWait {
		s := srv[t.Draw(len(srv))]
		if s.present {
			s.disabled = true
			if err := w.Apply(build()); err != nil {
				s.disabled = false
			} else {
				r.Probe("created_and_updated_at_one_instant")
				r.Logf("spec (at once): %s disabled=true", s.ep)
			}
		}
		w.NoWait = false
		w.Quiesce()
	}
	w.Boundary()
	w.Advance(50 * time.Millisecond) // first probes
	w.Boundary()

	nReq := 0
	held := map[string]bool{}
	// what the stubs would answer to a probe, over time (ground truth of health)
	type hev struct {
		at time.Duration
		ok bool
	}
	healthHist := map[string][]hev{}
	noteHealth := func() {
		for _, e := range eps {
			st := w.StubFor(e)
			// refused dials do not count: probes keep succeeding over a connection
			// that is already established
			ok := st.Health == ""
			h := healthHist[e]
			if len(h) == 0 || h[len(h)-1].ok != ok {
				healthHist[e] = append(h, hev{w.Now(), ok})
			}
		}
	}
	noteHealth()
	nSteps := t.Range(15, 70)
	specChanges, healthChanges, duringUpdate := 0, 0, 0
	concurrent := map[string]bool{} // requests sent while an update was being applied
	for step := 0; step < nSteps; step++ {
		pts := w.Sc.Points()
		weights := []int{10, 0, 4, 0, 5, 0}
		if len(pts) > 0 {
			weights[1] = 6
		}
		if faults {
			weights[3] = 4
			weights[5] = 1
		}
		switch t.Pick(weights) {
		case 0: // request
			nReq++
			id := fmt.Sprintf("q%d", nReq)
			verb := "get"
			target := "/api/v1/namespaces/default/pods/p1"
			if t.Draw(2) == 1 {
				verb = "list"
				target = "/api/v1/namespaces/default/pods"
			}
			hold := t.Draw(3) == 0
			w.SetScript(id, &Script{Hold: hold, Status: 200, Body: []byte("ok-" + id)})
			held[id] = hold
			q := &Req{ID: id, Host: "alpha", Method: "GET", Target: target, Headers: [][2]string{{"Authorization", "Bearer tok"}, {"X-Verb", verb}}}
			w.Send(q)
			r.Logf("send %s %s hold=%v -> done=%v status=%d", id, verb, hold, q.Done, q.Status)
		case 1: // release a held upstream request
			p := pts[t.Draw(len(pts))]
			out := UpRespond
			if faults && t.Draw(6) == 0 {
				out = []int{UpResetBefore, Up500, UpTruncate}[t.Draw(3)]
				r.Fault([]string{"", "conn_reset_before_response", "body_truncate", "upstream_5xx"}[out])
			}
			r.Logf("release %s -> %d", p.Key, out)
			w.Release(p, out)
		case 2: // spec update
			specChanges++
			s := srv[t.Draw(len(srv))]
			switch t.Draw(6) {
			case 0:
				s.disabled = !s.disabled
				r.Logf("spec: %s disabled=%v", s.ep, s.disabled)
			case 1:
				// keep at least one server (validation requires one)
				n := 0
				for _, x := range srv {
					if x.present {
						n++
					}
				}
				if s.present && n > 1 {
					s.present = false
				} else {
					s.present = true
				}
				r.Logf("spec: %s present=%v", s.ep, s.present)
			case 2:
				subsetA = drawSubset(t.Draw, eps, true)
				r.Logf("spec: subsetA=%v", short(subsetA))
			case 3:
				subsetB = drawSubset(t.Draw, eps, true)
				r.Logf("spec: subsetB=%v", short(subsetB))
			case 4:
				swapped = !swapped
				r.Logf("spec: policies swapped=%v", swapped)
			case 5:
				hasFront = !hasFront
				if hasFront {
					subsetC = drawSubset(t.Draw, eps, true)
					frontVerb = []string{"get", "list"}[t.Draw(2)]
				}
				r.Logf("spec: front policy=%v verb=%s subsetC=%v", hasFront, frontVerb, short(subsetC))
			}
			// requests that arrive while the update is being applied: nothing settles
			// between the update and them
			kDuring := t.Draw(3)
			w.NoWait = kDuring > 0
			if err := w.Apply(build()); err != nil {
				r.Logf("apply rejected: %v", firstLine(err.Error()))
			}
			for k := kDuring; k > 0; k-- {
				nReq++
				id := fmt.Sprintf("q%d", nReq)
				verb, target := "get", "/api/v1/namespaces/default/pods/p1"
				if t.Draw(2) == 1 {
					verb, target = "list", "/api/v1/namespaces/default/pods"
				}
				w.SetScript(id, &Script{Status: 200, Body: []byte("ok-" + id)})
				q := &Req{ID: id, Host: "alpha", Method: "GET", Target: target, Headers: [][2]string{{"Authorization", "Bearer tok"}, {"X-Verb", verb}}}
				w.Send(q)
				duringUpdate++
				concurrent[id] = true
				r.Logf("send %s %s during the update", id, verb)
			}
			w.NoWait = false
			w.Quiesce()
		case 3: // health / connectivity change of one stub
			healthChanges++
			st := w.StubFor(eps[t.Draw(len(eps))])
			switch t.Draw(5) {
			case 0:
				st.Health, st.DialMode = "", ""
			case 1:
				st.Health = "500"
			case 2:
				st.Health = "hang"
			case 3:
				st.Health = "reset"
			case 4:
				st.DialMode = "refused"
			}
			r.Fault("health_flap")
			r.Logf("stub %s health=%q dial=%q", st.Addr, st.Health, st.DialMode)
		case 4: // time passes
			d := []time.Duration{200 * time.Millisecond, time.Second, 2500 * time.Millisecond, 5 * time.Second, 6 * time.Second, 11 * time.Second}[t.Draw(6)]
			adv := w.Advance(d)
			r.Logf("advance %v", adv)
		case 5: // an endpoint is taken out of service while a probe of it is failing, and put back
			var cands []*srvSpec
			for i := range srv {
				if srv[i].present && !srv[i].disabled {
					cands = append(cands, srv[i])
				}
			}
			if len(cands) == 0 {
				break
			}
			s := cands[t.Draw(len(cands))]
			st := w.StubFor(s.ep)
			st.Health, st.DialMode = "hang", ""
			noteHealth()
			healthChanges++
			r.Fault("health_flap")
			inFlight := func() bool {
				for _, h := range w.UpObs() {
					if h.Kind == "healthz" && h.Endpoint == s.ep && !h.Done {
						return true
					}
				}
				return false
			}
			for g := 0; g < 14 && !inFlight(); g++ {
				w.Advance(time.Second)
				w.Boundary()
			}
			if !inFlight() {
				r.Logf("flap %s: no probe in flight", s.ep)
				break
			}
			r.Probe("endpoint_disabled_while_its_probe_hangs")
			if t.Draw(2) == 0 {
				// meanwhile new connections to it are refused: the dispatcher asks for an
				// immediate probe, which has to wait behind the hanging one
				st.DialMode = "refused"
				for k := t.Range(1, 3); k > 0; k-- {
					nReq++
					id := fmt.Sprintf("q%d", nReq)
					verb, target := "get", "/api/v1/namespaces/default/pods/p1"
					if t.Draw(2) == 1 {
						verb, target = "list", "/api/v1/namespaces/default/pods"
					}
					w.SetScript(id, &Script{Status: 200, Body: []byte("ok-" + id)})
					q := &Req{ID: id, Host: "alpha", Method: "GET", Target: target, Headers: [][2]string{{"Authorization", "Bearer tok"}, {"X-Verb", verb}}}
					w.Send(q)
					r.Logf("send %s %s (dials to %s are refused) -> done=%v status=%d", id, verb, s.ep, q.Done, q.Status)
					w.Boundary()
				}
				st.DialMode = ""
			}
			for _, dis := range []bool{true, false} {
				s.disabled = dis
				specChanges++
				if err := w.Apply(build()); err != nil {
					r.Logf("apply rejected: %v", firstLine(err.Error()))
				}
				w.Boundary()
				if dis {
					w.Advance(time.Duration(t.Range(1, 7)) * time.Second)
					w.Boundary()
				}
			}
			r.Logf("flap %s: disabled while its probe hung, enabled again", s.ep)
			for k := t.Range(1, 4); k > 0; k-- {
				nReq++
				id := fmt.Sprintf("q%d", nReq)
				verb, target := "get", "/api/v1/namespaces/default/pods/p1"
				if t.Draw(2) == 1 {
					verb, target = "list", "/api/v1/namespaces/default/pods"
				}
				w.SetScript(id, &Script{Status: 200, Body: []byte("ok-" + id)})
				q := &Req{ID: id, Host: "alpha", Method: "GET", Target: target, Headers: [][2]string{{"Authorization", "Bearer tok"}, {"X-Verb", verb}}}
				w.Send(q)
				r.Logf("send %s %s -> done=%v status=%d", id, verb, q.Done, q.Status)
				w.Boundary()
			}
			if t.Draw(2) == 0 {
				st.Health = ""
			}
		}
		noteHealth()
		w.Boundary()
		if len(w.panics) > 0 {
			break
		}
	}
	// drain: release everything, let time pass
	for i := 0; i < 200; i++ {
		pts := w.Sc.Points()
		if len(pts) == 0 {
			break
		}
		w.Release(pts[0], UpRespond)
		w.Boundary()
	}
	w.Advance(3 * time.Second)
	w.Boundary()
	r.SimSecs = w.Now().Seconds()

	// ---- oracle ------------------------------------------------------------
	snaps := w.Snaps()
	snapAt := func(i int) *Snap {
		if i < 0 {
			i = 0
		}
		if i >= len(snaps) {
			i = len(snaps) - 1
		}
		return snaps[i]
	}
	policySubset := func(obj *proxyv1alpha1.UpstreamCluster, verb string) (sub []string, all bool) {
		for _, p := range obj.Spec.DispatchPolicies {
			for _, ru := range p.Rules {
				for _, v := range ru.Verbs {
					if v == verb {
						if len(p.UpstreamSubset) == 0 {
							return nil, true
						}
						return p.UpstreamSubset, false
					}
				}
			}
		}
		return nil, false
	}
	eligible := func(s *Snap, verb string) map[string]bool {
		out := map[string]bool{}
		cs := s.Clusters["alpha"]
		if cs == nil || cs.Obj == nil {
			return out
		}
		sub, all := policySubset(cs.Obj, verb)
		inSpec := map[string]bool{}
		for _, sv := range cs.Obj.Spec.Servers {
			if sv.Disabled == nil || !*sv.Disabled {
				inSpec[sv.Endpoint] = true
			}
		}
		for ep, st := range cs.Endpoints {
			if !st.Ready || st.Disabled || !inSpec[ep] {
				continue
			}
			if all {
				out[ep] = true
				continue
			}
			for _, e := range sub {
				if e == ep {
					out[ep] = true
				}
			}
		}
		return out
	}
	reqByID := map[string]*Req{}
	for _, q := range w.Reqs() {
		reqByID[q.ID] = q
	}
	verbOf := func(q *Req) string {
		for _, h := range q.Headers {
			if h[0] == "X-Verb" {
				return h[1]
			}
		}
		return "get"
	}
	forwarded := map[string]int{}
	stray := map[string]int{}
	strayAt := map[string]bool{}
	lastStray := map[string]time.Duration{}
	probes := 0
	for _, o := range w.UpObs() {
		switch o.Kind {
		case "proxied":
			q := reqByID[o.ID]
			if q == nil {
				continue
			}
			forwarded[o.ID]++
			if forwarded[o.ID] > 1 {
				// the HTTP client retried an idempotent request on a connection
				// that died: same pick, not a new one
				r.Probe("transport_retry_same_endpoint")
				continue
			}
			// ground truth of "healthy", independent of the gateway's own flag: the
			// last probe attempt at this endpoint that ended with a verdict (200, 500,
			// or a hang that lasted until the gateway gave up) before the pick. A
			// reset attempt is retried by the client and proves nothing by itself.
			r.Checked("not_forwarded_after_failed_probe")
			var lastProbe *UpObs
			for _, h := range w.UpObs() {
				if h.Kind != "healthz" || h.Endpoint != o.Endpoint || !h.Done || h.DoneAt > o.At {
					continue
				}
				switch h.Outcome {
				case "200":
				case "500":
					if h.DoneAt > o.At-50*time.Millisecond {
						continue // the gateway may not have the answer yet
					}
				case "hang":
					// a verdict only if it lasted for the probe's whole timeout (5 s)
					if h.DoneAt-h.At < 4900*time.Millisecond || h.DoneAt > o.At-50*time.Millisecond {
						continue
					}
				default:
					continue
				}
				// ordered by start: an endpoint is probed by one loop, one probe at a
				// time; a probe that started earlier and ended later belongs to an
				// earlier incarnation of the endpoint (removed and added again) and
				// cannot touch the current one
				if lastProbe == nil || h.At >= lastProbe.At {
					lastProbe = h
				}
			}
			if lastProbe != nil && lastProbe.Outcome != "200" {
				r.Violate("forwarded_after_failed_probe", lastProbe.Outcome, "request %s was forwarded to %s at %v, but the latest health probe of that endpoint that got a verdict (started %v, ended %v) ended with %q and none that started later has succeeded", o.ID, o.Endpoint, o.At, lastProbe.At, lastProbe.DoneAt, lastProbe.Outcome)
				return
			}
			// an endpoint that has been in the server list and enabled for three probe
			// periods while every probe of it would have failed cannot be healthy in
			// any gateway that probes it: interval 5 s + time-out 5 s, with slack
			r.Checked("not_forwarded_to_long_failing_endpoint")
			const longFailing = 16 * time.Second
			if h := healthHist[o.Endpoint]; len(h) > 0 {
				i := len(h) - 1
				for i >= 0 && h[i].at > o.At {
					i--
				}
				if i >= 0 && !h[i].ok {
					failingFor := o.At - h[i].at
					enabledSince := o.At
					for b := o.Boundary; b >= 0; b-- {
						cs := snapAt(b).Clusters["alpha"]
						if cs == nil || cs.Obj == nil || !enabledSet(cs.Obj)[o.Endpoint] {
							break
						}
						enabledSince = snapAt(b).Now
					}
					if failingFor > longFailing && o.At-enabledSince > longFailing {
						r.Violate("forwarded_to_long_failing_endpoint", "c03", "request %s was forwarded to %s at %v; that endpoint has been enabled and in the server list for %v and every health probe of it would have failed for %v (probe interval 5 s, time-out 5 s)", o.ID, o.Endpoint, o.At, (o.At - enabledSince).Round(time.Millisecond), failingFor.Round(time.Millisecond))
						return
					}
				}
			}
			r.Checked("forwarded_to_eligible_endpoint")
			verb := verbOf(q)
			ok := false
			for _, b := range []int{o.Boundary, o.Boundary + 1} {
				if eligible(snapAt(b), verb)[o.Endpoint] {
					ok = true
				}
			}
			if !ok && concurrent[o.ID] {
				// the request ran while an update was being applied: each attribute of
				// the endpoint may have been seen in its old or its new value (an
				// endpoint that is enabled again is believed to be as healthy as it was
				// when it was disabled until its next probe says otherwise; the
				// failed-probe rule above holds the ground truth of health)
				A, B := snapAt(o.Boundary), snapAt(o.Boundary+1)
				inSpec, inSub, gwEnabled, healthy := false, false, false, false
				for _, sn := range []*Snap{A, B} {
					cs := sn.Clusters["alpha"]
					if cs == nil || cs.Obj == nil {
						continue
					}
					for _, sv := range cs.Obj.Spec.Servers {
						if sv.Endpoint == o.Endpoint && (sv.Disabled == nil || !*sv.Disabled) {
							inSpec = true
						}
					}
					sub, all := policySubset(cs.Obj, verb)
					if all {
						inSub = true
					}
					for _, e := range sub {
						if e == o.Endpoint {
							inSub = true
						}
					}
					if st, have := cs.Endpoints[o.Endpoint]; have {
						if !st.Disabled {
							gwEnabled = true
						}
						if st.Ready {
							healthy = true
						}
					}
				}
				if ca := A.Clusters["alpha"]; ca != nil {
					if st, have := ca.Endpoints[o.Endpoint]; have && st.Disabled {
						healthy = true
					}
				}
				ok = inSpec && inSub && gwEnabled && healthy
				if ok {
					r.Probe("pick_during_update_explained_by_a_mix_of_old_and_new_state")
				}
			}
			if !ok {
				cs := snapAt(o.Boundary).Clusters["alpha"]
				why := describeIneligible(cs, o.Endpoint, verb, policySubset)
				r.Violate("forwarded_to_ineligible_endpoint", why, "request %s (%s) was forwarded to %s at step %d, but %s (state before: %s; after: %s)",
					o.ID, verb, o.Endpoint, o.Step, why, snapDesc(snapAt(o.Boundary)), snapDesc(snapAt(o.Boundary+1)))
				return
			}
		case "healthz":
			probes++
			r.Checked("probe_only_to_enabled")
			enabled := false
			for _, b := range []int{o.Boundary - 1, o.Boundary, o.Boundary + 1} {
				cs := snapAt(b).Clusters["alpha"]
				if cs == nil || cs.Obj == nil {
					continue
				}
				for _, sv := range cs.Obj.Spec.Servers {
					if sv.Endpoint == o.Endpoint && (sv.Disabled == nil || !*sv.Disabled) {
						enabled = true
					}
				}
			}
			if !enabled {
				// arrivals at the same instant are one probe retried by the HTTP
				// client on a dying connection
				// arrivals less than 1.5 s after the previous one are the same
				// probe: the HTTP client retries on a dying connection at once,
				// client-go's REST client once per second until the probe times out
				key := fmt.Sprintf("%s@%d", o.Endpoint, o.At)
				strayAt[key] = true
				if last, ok := lastStray[o.Endpoint]; !ok || o.At-last > 1500*time.Millisecond {
					stray[o.Endpoint]++
				}
				lastStray[o.Endpoint] = o.At
			}
		}
	}
	// one stray probe per disable is the documented select coin; more is a violation
	disables := map[string]int{}
	for i := 1; i < len(snaps); i++ {
		a, b := snaps[i-1].Clusters["alpha"], snaps[i].Clusters["alpha"]
		if a == nil || b == nil || a.Obj == nil || b.Obj == nil {
			continue
		}
		was := enabledSet(a.Obj)
		now := enabledSet(b.Obj)
		for e := range was {
			if !now[e] {
				disables[e]++
			}
		}
	}
	for e, n := range stray {
		if n > disables[e] {
			var at []string
			for k := range strayAt {
				if strings.HasPrefix(k, e) {
					at = append(at, k[len(e):])
				}
			}
			sort.Strings(at)
			r.Violate("probe_to_disabled_endpoint", "c03", "%d health probes reached %s while it was disabled/removed (only %d disable events could explain a stray one); arrival times (ns) %v", n, e, disables[e], at)
			return
		}
	}
	noReady := 0
	for _, q := range w.Reqs() {
		if !q.Done {
			r.Violate("request_hung", "c03", "request %s never finished after draining\n%s", q.ID, sim.Goroutines("dispatcher", "reverseproxy", "gw.(*Stub)", "gw.(*World).Send"))
			return
		}
		if q.Status == 503 {
			st := statusOf(q)
			if st != nil && strings.Contains(st.Message, "no ready endpoints") {
				noReady++
				r.Checked("503_only_without_eligible_endpoint")
				if forwarded[q.ID] > 0 {
					r.Violate("503_but_forwarded", "c03", "request %s answered 503 no-ready-endpoints although it was forwarded", q.ID)
					return
				}
				verb := verbOf(q)
				// the decision was taken somewhere between start and end of the request
				anyEmpty := false
				var common map[string]bool
				for b := q.StartBoundary; b <= q.EndBoundary+1; b++ {
					el := eligible(snapAt(b), verb)
					if len(el) == 0 {
						anyEmpty = true
					}
					if common == nil {
						common = el
					} else {
						for e := range common {
							if !el[e] {
								delete(common, e)
							}
						}
					}
				}
				if concurrent[q.ID] && len(common) == 0 {
					// the request ran while an update was being applied: the set of
					// eligible endpoints changed under it (an endpoint added by the update
					// is not ready before its first probe), so it may have been empty for a moment
					anyEmpty = true
				}
				if !anyEmpty {
					r.Violate("503_with_eligible_endpoint", "c03", "request %s (%s) got 503 no-ready-endpoints although an eligible endpoint existed throughout (state at start: %s; at end: %s; answer: %s)", q.ID, verb, snapDesc(snapAt(q.StartBoundary)), snapDesc(snapAt(q.EndBoundary+1)), firstLine(st.Message))
					return
				}
			}
		}
	}
	r.ProbeN("requests", len(w.Reqs()))
	r.ProbeN("forwarded", len(forwarded))
	r.ProbeN("no_ready_503", noReady)
	r.ProbeN("health_probes_seen", probes)
	r.ProbeN("spec_changes", specChanges)
	r.ProbeN("requests_sent_while_an_update_was_being_applied", duringUpdate)
	r.ProbeN("health_changes", healthChanges)
	strayN := 0
	for _, n := range stray {
		strayN += n
	}
	r.ProbeN("stray_probe_after_disable_accepted", strayN)
	r.Nontrivial = len(forwarded) > 0 && (specChanges > 0 || healthChanges > 0)
	r.Sample = map[string]interface{}{"endpoints": k, "requests": len(w.Reqs()), "forwarded": len(forwarded), "no_ready_503": noReady, "spec_changes": specChanges, "health_changes": healthChanges, "sim_seconds": r.SimSecs}
}

func enabledSet(obj *proxyv1alpha1.UpstreamCluster) map[string]bool {
	m := map[string]bool{}
	for _, sv := range obj.Spec.Servers {
		if sv.Disabled == nil || !*sv.Disabled {
			m[sv.Endpoint] = true
		}
	}
	return m
}

func describeIneligible(cs *ClusterSnap, ep, verb string, policySubset func(*proxyv1alpha1.UpstreamCluster, string) ([]string, bool)) string {
	if cs == nil || cs.Obj == nil {
		return "the cluster did not exist"
	}
	inSpec, dis := false, false
	for _, sv := range cs.Obj.Spec.Servers {
		if sv.Endpoint == ep {
			inSpec = true
			dis = sv.Disabled != nil && *sv.Disabled
		}
	}
	if !inSpec {
		return "the endpoint was not in the server list"
	}
	if dis {
		return "the endpoint was disabled"
	}
	sub, all := policySubset(cs.Obj, verb)
	if !all {
		in := false
		for _, e := range sub {
			if e == ep {
				in = true
			}
		}
		if !in {
			return "the endpoint was not in the matched policy's subset"
		}
	}
	if st, ok := cs.Endpoints[ep]; !ok || !st.Ready {
		return "the endpoint was not healthy in the gateway's view"
	}
	return "unknown"
}

func snapDesc(s *Snap) string {
	cs := s.Clusters["alpha"]
	if cs == nil {
		return "no cluster"
	}
	var parts []string
	var eps []string
	for e := range cs.Endpoints {
		eps = append(eps, e)
	}
	sort.Strings(eps)
	for _, e := range eps {
		st := cs.Endpoints[e]
		parts = append(parts, fmt.Sprintf("%s ready=%v disabled=%v", e[7:], st.Ready, st.Disabled))
	}
	if cs.Obj != nil {
		for _, p := range cs.Obj.Spec.DispatchPolicies {
			parts = append(parts, fmt.Sprintf("policy %v subset=%v", p.Rules[0].Verbs, short(p.UpstreamSubset)))
		}
	}
	return strings.Join(parts, "; ")
}

func short(eps []string) []string {
	var out []string
	for _, e := range eps {
		out = append(out, strings.TrimPrefix(e, "http://"))
	}
	return out
}

func firstLine(s string) string {
	if i := strings.Index(s, "\n"); i >= 0 {
		s = s[:i]
	}
	if len(s) > 200 {
		s = s[:200]
	}
	return s
}

// drawSubset draws a sub-list of eps in drawn order; allowEmpty: may return nil (= all endpoints).
func drawSubset(draw func(int) int, eps []string, allowEmpty bool) []string {
	if allowEmpty && draw(3) == 0 {
		return nil
	}
	l := append([]string(nil), eps...)
	for i := len(l) - 1; i > 0; i-- {
		j := draw(i + 1)
		l[i], l[j] = l[j], l[i]
	}
	return l[:1+draw(len(l))]
}
