package gw

import (
	"encoding/json"
	"fmt"
	"io"
	"net"
	"net/http"
	"sort"
	"strings"
	"time"

	authenticationv1 "k8s.io/api/authentication/v1"
	authorizationv1 "k8s.io/api/authorization/v1"
	metav1 "k8s.io/apimachinery/pkg/apis/meta/v1"
)

// Ident is what a cluster's TokenReview answers for a token.
type Ident struct {
	User   string
	UID    string
	Groups []string
	Extra  map[string][]string
}

// ClusterStub is the scripted behaviour shared by all upstream servers of one
// upstream cluster: its own token table and its own authorization policy.
type ClusterStub struct {
	Name   string
	Tokens map[string]Ident
	// SAR answers a SubjectAccessReview: "allow", "deny", "noopinion", "error".
	SAR func(spec authorizationv1.SubjectAccessReviewSpec) string
	// ReviewMode: "" answer at once, "hold" park every review at a sim point,
	// "hold-sar" park SubjectAccessReviews only, "500" fail.
	ReviewMode string
}

// Outcomes of a held upstream request (chosen by the driver on release).
const (
	UpRespond = iota
	UpResetBefore
	UpTruncate
	Up500
)

// Script says how a stub answers the proxied request with a given id.
type Script struct {
	Hold   bool // park at a sim point before answering
	Status int
	Header http.Header
	Body   []byte
	// Stream: body is sent in these pieces with a sim point between them
	Stream [][]byte
}

// UpObs is a request as received by a stub upstream.
type UpObs struct {
	Step     int
	At       time.Duration // fake time of arrival
	Boundary int           // index of the state snapshot that was current when it arrived
	Cluster  string
	Endpoint string
	Kind     string // healthz | tokenreview | sar | proxied | other
	ID       string
	Method   string
	URI      string
	Path     string
	RawQuery string
	Host     string
	Header   http.Header
	Body     []byte
	Remote   string
	// review details
	Token   string
	SARSpec *authorizationv1.SubjectAccessReviewSpec
	// lifecycle
	CtxDone bool // the stub saw the request context end (connection closed)
	Done    bool // handler returned
	// health probes: how this attempt ended ("200" | "500" | "hang" | "reset") and when
	Outcome string
	DoneAt  time.Duration
}

// Stub is one upstream kube-apiserver endpoint.
type Stub struct {
	W        *World
	Cluster  *ClusterStub
	Endpoint string // URL as written in the UpstreamCluster
	Addr     string // host:port the gateway dials
	ln       *pipeListener
	srv      *http.Server

	DialMode string // "" ok | "refused" | "blackhole"
	Health   string // "" ok(200) | "500" | "hang" | "hang-body" | "reset"
	conns    int
}

func (w *World) newStub(cl *ClusterStub, endpoint string) *Stub {
	addr := strings.TrimPrefix(endpoint, "http://")
	host, port, _ := net.SplitHostPort(addr)
	p := 0
	fmt.Sscanf(port, "%d", &p)
	s := &Stub{W: w, Cluster: cl, Endpoint: endpoint, Addr: addr, ln: newPipeListener(tcpAddr(host, p))}
	s.srv = &http.Server{Handler: s}
	go s.srv.Serve(s.ln)
	return s
}

func (s *Stub) record(r *http.Request, kind string, body []byte) *UpObs {
	w := s.W
	o := &UpObs{Step: w.R.Step, At: w.Now(), Cluster: s.Cluster.Name, Endpoint: s.Endpoint, Kind: kind, ID: r.Header.Get("X-Sim-Id"),
		Method: r.Method, URI: r.RequestURI, Path: r.URL.Path, RawQuery: r.URL.RawQuery, Host: r.Host,
		Header: r.Header.Clone(), Body: body, Remote: r.RemoteAddr}
	w.mu.Lock()
	o.Boundary = len(w.snaps) - 1
	w.upObs = append(w.upObs, o)
	w.mu.Unlock()
	return o
}

func writeJSON(rw http.ResponseWriter, code int, v interface{}) {
	b, _ := json.Marshal(v)
	rw.Header().Set("Content-Type", "application/json")
	rw.WriteHeader(code)
	rw.Write(b)
}

func statusObj(code int, reason metav1.StatusReason, msg string) *metav1.Status {
	return &metav1.Status{TypeMeta: metav1.TypeMeta{Kind: "Status", APIVersion: "v1"}, Status: metav1.StatusFailure, Code: int32(code), Reason: reason, Message: msg}
}

func hijackClose(rw http.ResponseWriter) {
	if hj, ok := rw.(http.Hijacker); ok {
		if c, _, err := hj.Hijack(); err == nil {
			c.Close()
		}
	}
}

func (s *Stub) ServeHTTP(rw http.ResponseWriter, r *http.Request) {
	w := s.W
	body, _ := io.ReadAll(r.Body)
	w.transit()
	proxiedID := r.Header.Get("X-Sim-Id") // set by simulated clients only
	switch {
	case proxiedID == "" && r.URL.Path == "/healthz":
		o := s.record(r, "healthz", body)
		defer func() { o.Done, o.DoneAt = true, w.Now() }()
		switch s.Health {
		case "500":
			o.Outcome = "500"
			rw.WriteHeader(500)
			rw.Write([]byte("unhealthy"))
		case "hang":
			o.Outcome = "hang"
			<-r.Context().Done()
			o.CtxDone = true
		case "hang-body":
			// headers arrive, the body never does: the probe fails while reading the body
			o.Outcome = "hang"
			rw.Header().Set("Content-Length", "2")
			rw.WriteHeader(200)
			if f, ok := rw.(http.Flusher); ok {
				f.Flush()
			}
			<-r.Context().Done()
			o.CtxDone = true
		case "reset":
			o.Outcome = "reset"
			hijackClose(rw)
		default:
			o.Outcome = "200"
			rw.WriteHeader(200)
			rw.Write([]byte("ok"))
		}
	case proxiedID == "" && r.Method == "POST" && strings.HasSuffix(r.URL.Path, "/tokenreviews"):
		o := s.record(r, "tokenreview", body)
		defer func() { o.Done = true }()
		var tr authenticationv1.TokenReview
		if err := json.Unmarshal(body, &tr); err != nil {
			writeJSON(rw, 400, statusObj(400, metav1.StatusReasonBadRequest, err.Error()))
			return
		}
		o.Token = tr.Spec.Token
		if !s.review(rw, r, o, "tokenreview:"+tr.Spec.Token) {
			return
		}
		tr.TypeMeta = metav1.TypeMeta{Kind: "TokenReview", APIVersion: "authentication.k8s.io/v1"}
		if id, ok := s.Cluster.Tokens[tr.Spec.Token]; ok {
			tr.Status.Authenticated = true
			tr.Status.User = authenticationv1.UserInfo{Username: id.User, UID: id.UID, Groups: id.Groups}
			if id.Extra != nil {
				tr.Status.User.Extra = map[string]authenticationv1.ExtraValue{}
				for k, v := range id.Extra {
					tr.Status.User.Extra[k] = authenticationv1.ExtraValue(v)
				}
			}
			tr.Status.Audiences = tr.Spec.Audiences
		} else {
			tr.Status.Authenticated = false
		}
		writeJSON(rw, 201, &tr)
	case proxiedID == "" && r.Method == "POST" && strings.HasSuffix(r.URL.Path, "/subjectaccessreviews"):
		o := s.record(r, "sar", body)
		defer func() { o.Done = true }()
		var sar authorizationv1.SubjectAccessReview
		if err := json.Unmarshal(body, &sar); err != nil {
			writeJSON(rw, 400, statusObj(400, metav1.StatusReasonBadRequest, err.Error()))
			return
		}
		spec := sar.Spec
		o.SARSpec = &spec
		if !s.review(rw, r, o, "sar:"+sarKey(&spec)) {
			return
		}
		sar.TypeMeta = metav1.TypeMeta{Kind: "SubjectAccessReview", APIVersion: "authorization.k8s.io/v1"}
		ans := "noopinion"
		if s.Cluster.SAR != nil {
			ans = s.Cluster.SAR(spec)
		}
		switch ans {
		case "allow":
			sar.Status.Allowed = true
		case "deny":
			sar.Status.Denied = true
			sar.Status.Reason = "denied by " + s.Cluster.Name
		case "error":
			writeJSON(rw, 500, statusObj(500, metav1.StatusReasonInternalError, "sar backend failure"))
			return
		}
		writeJSON(rw, 201, &sar)
	default:
		o := s.record(r, "proxied", body)
		defer func() { o.Done = true }()
		w.mu.Lock()
		sc := w.scripts[o.ID]
		w.mu.Unlock()
		if sc == nil {
			sc = &Script{Status: 200, Body: []byte("default")}
		}
		if sc.Hold {
			out := w.Sc.ParkPoint("upstream", "", "upstream:"+o.ID+"@"+s.Addr, o)
			select {
			case <-r.Context().Done():
				o.CtxDone = true
			default:
			}
			switch out {
			case UpResetBefore:
				hijackClose(rw)
				return
			case Up500:
				writeJSON(rw, 500, statusObj(500, metav1.StatusReasonInternalError, "upstream failure"))
				return
			case UpTruncate:
				for k, vv := range sc.Header {
					rw.Header()[k] = vv
				}
				rw.Header().Set("Content-Length", fmt.Sprint(len(sc.Body)+10))
				rw.WriteHeader(sc.Status)
				rw.Write(sc.Body[:len(sc.Body)/2])
				if f, ok := rw.(http.Flusher); ok {
					f.Flush()
				}
				hijackClose(rw)
				return
			}
		}
		for k, vv := range sc.Header {
			rw.Header()[k] = vv
		}
		rw.WriteHeader(sc.Status)
		if len(sc.Stream) > 0 {
			fl, _ := rw.(http.Flusher)
			for i, chunk := range sc.Stream {
				if _, err := rw.Write(chunk); err != nil {
					o.CtxDone = true
					return
				}
				if fl != nil {
					fl.Flush()
				}
				if i < len(sc.Stream)-1 {
					out := w.Sc.ParkPoint("stream", "", fmt.Sprintf("stream:%s@%s#%d", o.ID, s.Addr, i), o)
					select {
					case <-r.Context().Done():
						o.CtxDone = true
						return
					default:
					}
					if out == UpResetBefore {
						hijackClose(rw)
						return
					}
				}
			}
			return
		}
		rw.Write(sc.Body)
	}
}

// review applies the cluster's review mode; false = already answered.
func (s *Stub) review(rw http.ResponseWriter, r *http.Request, o *UpObs, key string) bool {
	switch s.Cluster.ReviewMode {
	case "500-sar-once":
		// the next SubjectAccessReview fails, later ones are answered
		if strings.HasPrefix(key, "sar:") {
			s.Cluster.ReviewMode = ""
			s.W.R.Fault("review_transient_failure")
			writeJSON(rw, 500, statusObj(500, metav1.StatusReasonInternalError, "review backend failure"))
			return false
		}
	case "500":
		writeJSON(rw, 500, statusObj(500, metav1.StatusReasonInternalError, "review backend failure"))
		return false
	case "hold", "hold-sar":
		if s.Cluster.ReviewMode == "hold-sar" && !strings.HasPrefix(key, "sar:") {
			return true
		}
		out := s.W.Sc.ParkPoint("review", "", "review:"+key+"@"+s.Addr, o)
		select {
		case <-r.Context().Done():
			o.CtxDone = true
			return false
		default:
		}
		if out == UpResetBefore {
			hijackClose(rw)
			return false
		}
		if out == Up500 {
			writeJSON(rw, 500, statusObj(500, metav1.StatusReasonInternalError, "review backend failure"))
			return false
		}
	}
	return true
}

func sarKey(s *authorizationv1.SubjectAccessReviewSpec) string {
	var parts []string
	parts = append(parts, s.User)
	g := append([]string(nil), s.Groups...)
	sort.Strings(g)
	parts = append(parts, strings.Join(g, ","))
	if s.ResourceAttributes != nil {
		a := s.ResourceAttributes
		parts = append(parts, a.Verb, a.Group, a.Resource, a.Subresource, a.Name, a.Namespace)
	}
	if s.NonResourceAttributes != nil {
		parts = append(parts, s.NonResourceAttributes.Verb, s.NonResourceAttributes.Path)
	}
	return strings.Join(parts, "|")
}

type authorizationSpec = authorizationv1.SubjectAccessReviewSpec
