package gw

import (
	"crypto/tls"
	"crypto/x509"
	"fmt"
	"sort"
	"strings"
	"time"

	"kgsim/sim"
)

// RunC10: a host resolves to at most one cluster, and the right one.
func RunC10(r *sim.Run) {
	t := r.T
	w := NewWorld(r, defaultOpts())
	defer w.Stop()
	if strings.Contains(r.Profile, "preempt") {
		// the controller's own goroutines give up the processor inside a sync, at
		// statements of the controller: whatever else is runnable (a second queue
		// worker, if there were one; informer handlers) runs in between
		w.EnablePreemption(uint64(t.Draw(1 << 30)))
		defer func() { r.ProbeN("preemptions_inside_controller_code", w.Sc.Preempts) }()
	}
	names := []string{"alpha", "beta", "one", "gamma"}[:t.Range(2, 4)]
	pool := []string{"One", "one", "Two.Example", "two.example", "alpha", "Shared", "shared", "BETA"}
	certs := map[string]*certSet{}
	specs := map[string]*cspec{}
	live := map[string]bool{}
	// versions[name] = claimed name sets of every version of the current incarnation
	type verClaims struct{ claims map[string]bool }
	incarnation := map[string][]verClaims{}
	everDeleted := map[string]int{} // step of the last delete
	claimsOf := func(c *cspec) map[string]bool {
		m := map[string]bool{strings.ToLower(c.name): true}
		for _, s := range c.serverNames {
			m[strings.ToLower(s)] = true
		}
		return m
	}
	var certList []*certSet
	for ci, n := range names {
		w.AddClusterStub(n, 1, ci)
		certs[n] = genCertSet(n)
		certList = append(certList, certs[n])
		c := &cspec{name: n, gates: map[string]bool{}}
		for _, e := range w.EndpointsOf(n) {
			c.servers = append(c.servers, srvSpec{ep: e, present: true})
		}
		specs[n] = c
	}
	hostSet := map[string]bool{}
	for _, p := range pool {
		hostSet[strings.ToLower(p)] = true
	}
	for _, n := range names {
		hostSet[n] = true
	}
	for h := range hostSet {
		w.Hosts = append(w.Hosts, h)
	}
	sort.Strings(w.Hosts)
	certIdx := func(n string) int {
		for i, x := range names {
			if x == n {
				return i + 1
			}
		}
		return 0
	}
	w.Boundary()

	type event struct {
		step    int
		kind    string
		cluster string
	}
	var events []event
	type duringReq struct {
		q      *Req
		name   string
		before int // index of the last snapshot before the update
	}
	var during []duringReq
	stable := map[int]bool{} // snapshot indices taken at stable points
	nSteps := t.Range(8, 45)
	writes, lagWrites := 0, 0
	reqN := 0
	for step := 0; step < nSteps; step++ {
		switch t.Pick([]int{10, 3, 2, 2, 4, 3}) {
		case 0: // create / update
			n := names[t.Draw(len(names))]
			c := specs[n].clone()
			k := t.Draw(4)
			c.serverNames = nil
			for i := 0; i < k; i++ {
				c.serverNames = append(c.serverNames, pool[t.Draw(len(pool))])
			}
			if t.Draw(2) == 0 {
				c.cert, c.ca = certIdx(n), certIdx(n)
			} else {
				c.cert, c.ca = 0, 0
			}
			// requests for the cluster's own name (which every version claims) that arrive
			// while the update is being applied: nothing settles in between
			kDuring := 0
			if live[n] && t.Draw(2) == 0 {
				kDuring = t.Range(1, 2)
			}
			w.NoWait = kDuring > 0
			err := w.Apply(c.object(certList))
			for k := 0; k < kDuring && err == nil; k++ {
				reqN++
				q := &Req{ID: fmt.Sprintf("u%d", reqN), Host: n, Method: "GET", Target: "/api/v1/namespaces/default/pods"}
				w.Send(q)
				during = append(during, duringReq{q, n, len(w.Snaps()) - 1})
			}
			w.NoWait = false
			w.Quiesce()
			if err != nil {
				r.Logf("%s names=%v REJECTED: %s", n, c.serverNames, firstLine(err.Error()))
				break
			}
			writes++
			if w.AdmitGate.Held() {
				lagWrites++
			}
			specs[n] = c
			if !live[n] {
				incarnation[n] = nil
			}
			live[n] = true
			incarnation[n] = append(incarnation[n], verClaims{claimsOf(c)})
			events = append(events, event{r.Step, "write", n})
			r.Logf("%s v%d names=%v tls=%v", n, w.versions[n], c.serverNames, c.cert > 0)
		case 1: // delete
			n := names[t.Draw(len(names))]
			if live[n] {
				w.Delete(n)
				live[n] = false
				everDeleted[n] = r.Step
				events = append(events, event{r.Step, "delete", n})
				r.Logf("delete %s", n)
			}
		case 2:
			if w.AdmitGate.Held() {
				w.AdmitGate.Open()
			} else {
				w.AdmitGate.Hold()
				r.Fault("watch_delay")
			}
			r.Logf("admission lister held=%v", w.AdmitGate.Held())
		case 3:
			if w.CtlGate.Held() {
				w.CtlGate.Open()
			} else {
				w.CtlGate.Hold()
				r.Fault("watch_delay")
			}
			r.Logf("controller informer held=%v", w.CtlGate.Held())
		case 4:
			d := []time.Duration{time.Second, 4 * time.Second, 6 * time.Second, 20 * time.Second}[t.Draw(4)]
			w.Advance(d)
			r.Logf("advance %v", d)
		case 5: // stable point: no lag, all requeues over
			w.AdmitGate.Open()
			w.CtlGate.Open()
			w.Quiesce()
			for i := 0; i < 4; i++ {
				w.Advance(6 * time.Second)
			}
			r.Logf("stable point")
			s := w.Boundary()
			idx := len(w.Snaps()) - 1
			stable[idx] = true
			// real requests at the stable point, host in drawn case, with or without port
			for k := t.Draw(3); k > 0; k-- {
				h := w.Hosts[t.Draw(len(w.Hosts))]
				hostHdr := h
				switch t.Draw(3) {
				case 1:
					hostHdr = strings.ToUpper(h)
				case 2:
					hostHdr = strings.ToUpper(h[:1]) + h[1:]
				}
				if t.Draw(2) == 0 {
					hostHdr += ":6443"
				}
				reqN++
				q := &Req{ID: fmt.Sprintf("h%d", reqN), Host: hostHdr, Method: "GET", Target: "/api/v1/namespaces/default/pods"}
				w.Send(q)
				for g := 0; g < 4 && !q.Done; g++ {
					w.Advance(time.Second)
				}
				want := s.Resolve[h]
				got := ""
				for _, o := range w.UpObs() {
					if o.Kind == "proxied" && o.ID == q.ID {
						got = o.Cluster
					}
				}
				r.Checked("http_host_resolution")
				r.Logf("req %s Host=%s -> %d cluster=%q", q.ID, hostHdr, q.Status, got)
				if got != want {
					r.Violate("http_resolution_differs", "c10", "Host %q: the manager resolves %q to cluster %q but the request was served by cluster %q (status %d)", hostHdr, h, want, got, q.Status)
					return
				}
				if want == "" && q.Status != 503 {
					r.Violate("unresolved_host_not_503", "c10", "Host %q resolves to no cluster but the client got %d", hostHdr, q.Status)
					return
				}
			}
			continue
		}
		w.Boundary()
	}
	// final stable point
	w.AdmitGate.Open()
	w.CtlGate.Open()
	w.Quiesce()
	for i := 0; i < 4; i++ {
		w.Advance(6 * time.Second)
	}
	w.Boundary()
	stable[len(w.Snaps())-1] = true
	r.SimSecs = w.Now().Seconds()

	// ---- oracle over the snapshot history ---------------------------------
	snaps := w.Snaps()
	// a name that resolved to its cluster before an update of that cluster and resolves to
	// it afterwards resolves to it at every moment in between: requests sent at the instant
	// of the update are served by that cluster
	for _, d := range during {
		if !d.q.Done || d.before+1 >= len(snaps) || snaps[d.before].Resolve[d.name] != d.name || snaps[d.before+1].Resolve[d.name] != d.name {
			continue
		}
		got := ""
		for _, o := range w.UpObs() {
			if o.Kind == "proxied" && o.ID == d.q.ID {
				got = o.Cluster
			}
		}
		st := statusOf(d.q)
		if got == "" && d.q.Status == 503 && st != nil && strings.Contains(st.Message, "no ready endpoints") {
			continue
		}
		r.Checked("own_name_resolves_during_update")
		if got != d.name {
			msg := ""
			if st != nil {
				msg = firstLine(st.Message)
			}
			r.Violate("name_lost_or_captured", "during-update", "request %s for host %q was sent while cluster %q was being updated; the name resolved to that cluster before and after the update, but the request was served by %q (status %d %s)", d.q.ID, d.name, d.name, got, d.q.Status, msg)
			return
		}
	}
	r.ProbeN("requests_sent_while_their_cluster_was_updated", len(during))
	// per snapshot: claims of the latest object of every live cluster (from the snapshot itself)
	latestClaims := func(s *Snap) map[string]map[string]bool {
		out := map[string]map[string]bool{}
		for n, cs := range s.Clusters {
			if cs.Obj == nil {
				continue
			}
			m := map[string]bool{n: true}
			for _, x := range cs.Obj.Spec.SecureServing.ServerNames {
				m[strings.ToLower(x)] = true
			}
			out[n] = m
		}
		return out
	}
	// every version ever written per cluster up to snapshot i (by object version number)
	everClaimed := map[string]map[string]bool{} // cluster -> names claimed by any version so far
	sinceIncarnation := map[string][]map[string]bool{}
	lastVersion := map[string]int{}
	wasLive := map[string]bool{}
	lastStableStep := 0
	for i, s := range snaps {
		lc := latestClaims(s)
		for n := range wasLive {
			if _, ok := lc[n]; !ok && wasLive[n] {
				wasLive[n] = false
				sinceIncarnation[n] = nil
			}
		}
		for n, m := range lc {
			cs := s.Clusters[n]
			if !wasLive[n] || cs.Version != lastVersion[n] {
				sinceIncarnation[n] = append(sinceIncarnation[n], m)
				lastVersion[n] = cs.Version
			}
			wasLive[n] = true
			if everClaimed[n] == nil {
				everClaimed[n] = map[string]bool{}
			}
			for h := range m {
				everClaimed[n][h] = true
			}
		}
		// S1: a name resolves only to a cluster that claimed it at some time
		for h, c := range s.Resolve {
			if c == "" {
				continue
			}
			r.Checked("resolves_only_to_a_claimant")
			if !everClaimed[c][h] {
				r.Violate("name_captured", "never-claimed", "step %d: host %q resolves to cluster %q, which never claimed it", s.Step, h, c)
				return
			}
		}
		// S2: no capture / removal of a name that its owner claimed throughout
		if i > 0 {
			prev := snaps[i-1]
			for h, a := range prev.Resolve {
				if a == "" || s.Resolve[h] == a {
					continue
				}
				r.Checked("owned_name_not_lost")
				if _, stillLive := lc[a]; !stillLive {
					continue // the owner was deleted
				}
				all := true
				for _, m := range sinceIncarnation[a] {
					if !m[h] {
						all = false
					}
				}
				if len(sinceIncarnation[a]) == 0 {
					all = false
				}
				// the owner may have been deleted and re-created between the two boundaries
				if cs := s.Clusters[a]; cs != nil && prev.Clusters[a] != nil && cs.Version < prev.Clusters[a].Version {
					all = false
				}
				// while the controller lags it may still serve an incarnation of the
				// owner that was deleted (and re-created) since the last stable point
				if del, ok := everDeleted[a]; ok && del >= lastStableStep {
					all = false
				}
				if all {
					r.Violate("name_lost_or_captured", "owned", "step %d: host %q resolved to cluster %q, which still exists and claimed it in every version, but now resolves to %q", s.Step, h, a, s.Resolve[h])
					return
				}
			}
		}
		if !stable[i] {
			continue
		}
		lastStableStep = s.Step
		// stable point clauses
		owners := map[string][]string{}
		for n, m := range lc {
			for h := range m {
				owners[h] = append(owners[h], n)
			}
		}
		conflict := false
		for _, o := range owners {
			if len(o) > 1 {
				conflict = true
			}
		}
		for h, c := range s.Resolve {
			if c == "" {
				continue
			}
			r.Checked("deleted_cluster_stops_resolving")
			if _, ok := lc[c]; !ok {
				r.Violate("deleted_cluster_still_resolves", "c10", "stable point at step %d: host %q still resolves to cluster %q, which was deleted", s.Step, h, c)
				return
			}
		}
		if conflict {
			r.Probe("stable_point_with_conflicting_claims")
			continue
		}
		for _, h := range w.Hosts {
			r.Checked("iff_at_stable_point")
			want := ""
			if o := owners[h]; len(o) == 1 {
				want = o[0]
			}
			if s.Resolve[h] != want {
				// is some cluster still holding a name its latest object no longer
				// claims (its own update being refused because of a conflict)? Then
				// every cluster whose latest object wants that name is stuck behind it.
				sig := "other"
				for h2, d := range s.Resolve {
					if d != "" && lc[d] != nil && !lc[d][h2] {
						sig = "stuck-behind-stale-claim"
					}
				}
				if sig == "stuck-behind-stale-claim" {
					r.Finding("resolution_wrong_at_stable_point", sig, "stable point at step %d: host %q resolves to %q, but the latest objects say %q (claims: %v); resolution table %v", s.Step, h, s.Resolve[h], want, owners[h], s.Resolve)
					break
				}
				r.Violate("resolution_wrong_at_stable_point", sig, "stable point at step %d: host %q resolves to %q, but the latest objects say %q (claims: %v); resolution table %v", s.Step, h, s.Resolve[h], want, owners[h], s.Resolve)
				return
			}
		}
	}
	// TLS material at the final stable point
	final := snaps[len(snaps)-1]
	lc := latestClaims(final)
	owners := map[string][]string{}
	for n, m := range lc {
		for h := range m {
			owners[h] = append(owners[h], n)
		}
	}
	conflict := false
	for _, o := range owners {
		if len(o) > 1 {
			conflict = true
		}
	}
	// Known finding F-C10-1 (circular conflict): a cluster that still holds a name
	// its latest object gave up has not been brought to its latest object at all,
	// and neither has a cluster waiting for such a name; their serving material is
	// as stale as their names, which is that finding, not another one.
	stuck := map[string]bool{}
	staleHolder := false
	for h2, d := range final.Resolve {
		if d != "" && lc[d] != nil && !lc[d][h2] {
			staleHolder = true
			stuck[d] = true
		}
	}
	if staleHolder {
		for n, m := range lc {
			for h := range m {
				if final.Resolve[h] != n {
					stuck[n] = true
				}
			}
		}
	}
	if !conflict {
		getCfg := w.Ctl.WrapGetConfigForClient(func(*tls.ClientHelloInfo) (*tls.Config, error) { return &tls.Config{}, nil })
		for _, h := range w.Hosts {
			c := final.Resolve[h]
			if stuck[c] {
				r.Probe("tls_check_skipped_cluster_stuck_behind_stale_claim")
				continue
			}
			cfg, err := getCfg(&tls.ClientHelloInfo{ServerName: h})
			if err != nil {
				r.Violate("tls_config_error", "c10", "GetConfigForClient(%q): %v", h, err)
				return
			}
			gotCert := ""
			if len(cfg.Certificates) > 0 && len(cfg.Certificates[0].Certificate) > 0 {
				gotCert = fmt.Sprintf("%x", cfg.Certificates[0].Certificate[0])
			}
			gotCA := ""
			if cfg.ClientCAs != nil {
				gotCA = poolSubjects(cfg.ClientCAs)
			}
			vo, voOK := w.Ctl.SNIVerifyOptions(h + ":6443")
			gotRoots := ""
			if voOK && vo.Roots != nil {
				gotRoots = poolSubjects(vo.Roots)
			}
			wantCert, wantCA := "", ""
			if c != "" && specs[c].cert > 0 {
				wantCert = fmt.Sprintf("%x", certs[c].certDER)
			}
			if c != "" && specs[c].ca > 0 {
				wantCA = caSubjectHex(certs[c])
			}
			r.Checked("tls_material_of_resolved_cluster")
			if gotCert != wantCert || gotCA != wantCA || gotRoots != wantCA {
				r.Violate("tls_material_of_wrong_cluster", "c10", "SNI %q (cluster %q): serving cert %.24s.. clientCAs %q verify roots %q; the cluster's latest object means cert %.24s.. CA %q", h, c, gotCert, gotCA, gotRoots, wantCert, wantCA)
				return
			}
		}
	}
	_ = events
	_ = incarnation
	r.ProbeN("writes", writes)
	r.ProbeN("writes_while_admission_lagged", lagWrites)
	r.ProbeN("stable_points", len(stable))
	r.ProbeN("http_requests", reqN)
	r.Nontrivial = writes >= 3
	r.Sample = map[string]interface{}{"clusters": len(names), "writes": writes, "lagged_writes": lagWrites, "stable_points": len(stable)}
}

func caSubjectHex(cs *certSet) string {
	p := newPoolFromPEM(cs.ca)
	return poolSubjects(p)
}

func newPoolFromPEM(pemBytes []byte) *x509.CertPool {
	p := x509.NewCertPool()
	p.AppendCertsFromPEM(pemBytes)
	return p
}
