package gw

import (
	"bytes"
	"fmt"
	"net/http"
	"net/textproto"
	"net/url"
	"sort"
	"strings"
	"time"

	metav1 "k8s.io/apimachinery/pkg/apis/meta/v1"

	proxyv1alpha1 "github.com/kubewharf/kubegateway/pkg/apis/proxy/v1alpha1"
	"github.com/kubewharf/kubegateway/pkg/clusters/features"

	"kgsim/sim"
)

func genBytes(seed uint64, n int) []byte {
	b := make([]byte, n)
	x := seed
	for i := range b {
		x += 0x9e3779b97f4a7c15
		z := x
		z = (z ^ (z >> 30)) * 0xbf58476d1ce4e5b9
		z = (z ^ (z >> 27)) * 0x94d049bb133111eb
		b[i] = byte(z ^ (z >> 31))
	}
	return b
}

var hopHeaders = map[string]bool{"Connection": true, "Proxy-Connection": true, "Keep-Alive": true, "Proxy-Authenticate": true,
	"Proxy-Authorization": true, "Te": true, "Trailer": true, "Transfer-Encoding": true, "Upgrade": true}

type c04Case struct {
	q        *Req
	script   *Script
	expect   string // "forward" | "503-unknown-host" | "429-gate" | "503-no-endpoint" | "429-flow" | "429-flow-events" | "403-impersonation"
	connList []string
	slow     time.Duration // how long the upstream takes before it answers
}

// RunC04: forwarding fidelity and well-formed terminations.
func RunC04(r *sim.Run) {
	t := r.T
	faults := !strings.Contains(r.Profile, "nofault")
	w := NewWorld(r, defaultOpts())
	defer w.Stop()

	// alpha: healthy, forwards. beta: DenyAllRequests gate. gamma: no reachable endpoint.
	alpha := w.AddClusterStub("alpha", t.Range(1, 2), 0)
	alpha.Tokens["tok"] = Ident{User: "alice", Groups: []string{"dev"}}
	alpha.SAR = func(spec authorizationSpec) string { return "deny" }
	w.AddClusterStub("beta", 1, 1)
	w.AddClusterStub("gamma", 1, 2)
	for _, e := range w.EndpointsOf("gamma") {
		w.StubFor(e).DialMode = "refused"
	}
	a := BaseCluster("alpha", w.EndpointsOf("alpha"))
	a.Spec.FlowControl.Schemas = []proxyv1alpha1.FlowControlSchema{{Name: "zero", FlowControlSchemaConfiguration: proxyv1alpha1.FlowControlSchemaConfiguration{
		MaxRequestsInflight: &proxyv1alpha1.MaxRequestsInflightFlowControlSchema{Max: 0}}}}
	a.Spec.DispatchPolicies = append([]proxyv1alpha1.DispatchPolicy{{FlowControlSchemaName: "zero",
		Rules: []proxyv1alpha1.DispatchPolicyRule{{Verbs: []string{"*"}, APIGroups: []string{"*"}, Resources: []string{"secrets", "events"}}}}}, a.Spec.DispatchPolicies...)
	b := BaseCluster("beta", w.EndpointsOf("beta"))
	b.Annotations = map[string]string{features.FeatureGateAnnotationKey: "DenyAllRequests=true"}
	g := BaseCluster("gamma", w.EndpointsOf("gamma"))
	for _, o := range []*proxyv1alpha1.UpstreamCluster{a, b, g} {
		if err := w.Apply(o); err != nil {
			r.Inconclusive("apply " + o.Name + ": " + err.Error())
			return
		}
	}
	w.Boundary()
	w.Advance(100 * time.Millisecond)
	w.Boundary()

	pathSegs := []string{"p1", "a%20b", "x%2Fy", "%41bc", "semi;p=1", "%E2%82%AC", "dots..", "tilde~", "plus+sign", "perc%25ent", "UPPER", "a:b", "a@b", "a=b", "a,b", "a$b", "a!b", "a*b", "(p)"}
	qPairs := []string{"a=1", "a=0", "b=2", "e=", "k", "x=%26%3D", "sp=a+b", "sp2=a%20b", "watch=false", "u=%E2%82%AC", "dup=1", "dup=1", "bad=%zz", "c;d=1", "=noval", "a=1&&b=2"}
	methods := []string{"GET", "GET", "POST", "PUT", "PATCH", "DELETE"}
	statuses := []int{200, 200, 201, 202, 204, 301, 400, 401, 403, 404, 409, 418, 429, 500, 502, 503}

	var cases []*c04Case
	n := t.Range(6, 30)
	for i := 0; i < n; i++ {
		id := fmt.Sprintf("f%d", i)
		c := &c04Case{expect: "forward"}
		q := &Req{ID: id, Host: "alpha:6443", Method: methods[t.Draw(len(methods))]}
		// path
		resource := "pods"
		switch t.Pick([]int{10, 2, 2, 2}) {
		case 1:
			resource = "secrets"
			c.expect = "429-flow"
		case 2:
			resource = "events"
			c.expect = "429-flow-events"
		case 3:
			resource = ""
		}
		var path string
		if resource == "" && t.Draw(2) == 0 {
			// non-resource URLs of every depth, discovery documents among them
			path = []string{"/apis", "/api", "/version", "/apis/apps", "/api/v1", "/apis/apps/v1", "/apis/metrics.k8s.io/v1beta1", "/openapi/v2",
				"/healthz/poststarthook/x", "/custom/a/b", "/custom/a/b/c/d", "/apis/apps/v1/", "/metrics"}[t.Draw(13)]
		} else if resource == "" {
			path = "/custom/" + pathSegs[t.Draw(len(pathSegs))]
			if t.Draw(3) == 0 {
				path += "/"
			}
		} else {
			path = "/api/v1/namespaces/ns1/" + resource
			if t.Draw(3) != 0 {
				seg := pathSegs[t.Draw(len(pathSegs))]
				if resource != "pods" && strings.Contains(seg, "%2F") {
					seg = "p1" // an escaped slash would turn the name into name/subresource, which the limiter policy does not list
				}
				path += "/" + seg
			}
		}
		var qs []string
		for k := t.Draw(5); k > 0; k-- {
			qs = append(qs, qPairs[t.Draw(len(qPairs))])
		}
		q.Target = path
		if len(qs) > 0 {
			q.Target += "?" + strings.Join(qs, "&")
		}
		// host variations that terminate
		switch t.Pick([]int{14, 1, 1, 1, 1}) {
		case 1:
			q.Host = "nosuch.example:6443"
			c.expect = "503-unknown-host"
		case 2:
			q.Host = "beta"
			c.expect = "429-gate"
		case 3:
			q.Host = "gamma:443"
			c.expect = "503-no-endpoint"
		case 4:
			if c.expect == "forward" {
				q.Headers = append(q.Headers, [2]string{"Impersonate-User", "mallory"})
				c.expect = "403-impersonation"
			}
		}
		// headers
		if t.Draw(2) == 0 {
			q.Headers = append(q.Headers, [2]string{"Authorization", "Bearer tok"})
		}
		if t.Draw(2) == 0 {
			q.Headers = append(q.Headers, [2]string{"X-Custom-1", "v1 with spaces"})
		}
		if t.Draw(3) == 0 {
			q.Headers = append(q.Headers, [2]string{"X-Multi", "m1"}, [2]string{"x-multi", "m2"})
		}
		if t.Draw(3) == 0 {
			q.Headers = append(q.Headers, [2]string{"Accept", "application/json, */*"})
		}
		if t.Draw(3) == 0 {
			q.Headers = append(q.Headers, [2]string{"Cookie", "a=b; c=d"})
		}
		if t.Draw(3) == 0 {
			q.Headers = append(q.Headers, [2]string{"User-Agent", "kubectl/v1.18 (sim)"})
		}
		if t.Draw(4) == 0 {
			q.Headers = append(q.Headers, [2]string{"Accept-Encoding", "identity"})
		}
		if t.Draw(3) == 0 {
			q.Headers = append(q.Headers, [2]string{"X-Forwarded-For", "203.0.113.7, 198.51.100.2"})
		}
		if t.Draw(4) == 0 {
			q.Headers = append(q.Headers, [2]string{"Connection", "X-Drop, keep-alive"}, [2]string{"X-Drop", "secret"}, [2]string{"Keep-Alive", "timeout=5"})
			c.connList = []string{"X-Drop"}
		}
		if t.Draw(5) == 0 {
			q.Headers = append(q.Headers, [2]string{"Te", "trailers"})
		}
		if t.Draw(6) == 0 {
			q.Headers = append(q.Headers, [2]string{"Proxy-Authorization", "Basic Zm9vOmJhcg=="})
		}
		// body
		if q.Method != "GET" && q.Method != "DELETE" || t.Draw(8) == 0 {
			size := []int{0, 1, 17, 100, 4096, 65536, 262144}[t.Draw(7)]
			q.Body = genBytes(uint64(i)*977+uint64(t.Draw(1000)), size)
			q.Chunked = size > 0 && t.Draw(3) == 0
			q.Headers = append(q.Headers, [2]string{"Content-Type", "application/octet-stream"})
		}
		// scripted upstream answer
		sc := &Script{Status: statuses[t.Draw(len(statuses))], Header: http.Header{}}
		if sc.Status != 204 {
			size := []int{0, 2, 300, 5000, 70000, 200000}[t.Draw(6)]
			sc.Body = genBytes(uint64(i)*131+7, size)
			if t.Draw(3) == 0 {
				sc.Body = []byte(`{"kind":"PodList","items":[` + strings.Repeat(`{"a":1},`, size/8) + `{}]}`)
				sc.Header.Set("Content-Type", "application/json")
			} else if t.Draw(2) == 0 {
				sc.Header.Set("Content-Type", "application/vnd.kubernetes.protobuf")
			}
			if len(sc.Body) > 0 && t.Draw(4) == 0 {
				// streamed in pieces (chunked, flushed)
				third := len(sc.Body) / 3
				sc.Stream = [][]byte{sc.Body[:third], sc.Body[third : 2*third], sc.Body[2*third:]}
			}
		}
		if t.Draw(2) == 0 {
			sc.Header["X-Up-Hdr"] = []string{"u1", "u2"}
		}
		if t.Draw(4) == 0 {
			sc.Header.Set("Cache-Control", "max-age=5")
		}
		if t.Draw(4) == 0 {
			sc.Header.Set("Set-Cookie", "s=1; Path=/")
		}
		if t.Draw(4) == 0 {
			sc.Header.Set("Retry-After", "7")
		}
		if t.Draw(5) == 0 {
			sc.Header.Set("Connection", "X-Up-Drop")
			sc.Header.Set("X-Up-Drop", "hidden")
		}
		if sc.Status == 301 {
			sc.Header.Set("Location", "/elsewhere?x=1")
		}
		// a slow upstream: it takes its time (up to a minute) before it answers
		hold := t.Draw(4) == 0
		sc.Hold = hold
		if hold {
			c.slow = []time.Duration{0, 200 * time.Millisecond, 2 * time.Second, 6 * time.Second, 31 * time.Second, 61 * time.Second}[t.Draw(6)]
		}
		c.q, c.script = q, sc
		w.SetScript(id, sc)
		cases = append(cases, c)
	}

	slowed := 0
	injected := map[string]int{}
	midStream := map[string]bool{}
	for _, c := range cases {
		w.Send(c.q)
		// drive streams / holds of this request to the end
		for guard := 0; guard < 20 && !c.q.Done; guard++ {
			pts := w.Sc.Points()
			if len(pts) == 0 {
				w.Advance(time.Second)
				continue
			}
			p := pts[0]
			out := UpRespond
			if p.Kind == "upstream" && c.slow > 0 {
				w.Advance(c.slow)
				slowed++
			}
			if p.Kind == "upstream" && faults && t.Draw(2) == 0 {
				out = []int{UpResetBefore, UpTruncate}[t.Draw(2)]
				injected[c.q.ID] = out
				r.Fault([]string{"", "conn_reset_before_response", "body_truncate"}[out])
			}
			if p.Kind == "stream" && faults && t.Draw(3) == 0 {
				// connection cut in the middle of a chunked upstream body. What the
				// client then sees is outside the statement (which quantifies over
				// inputs, not upstream failures): recorded as an observation only.
				out = UpResetBefore
				midStream[c.q.ID] = true
				r.Fault("conn_reset_during_response")
			}
			w.Release(p, out)
		}
		r.Logf("%s %s %s host=%s expect=%s -> status=%d err=%q body=%d", c.q.ID, c.q.Method, c.q.Target, c.q.Host, c.expect, c.q.Status, c.q.ReadErr, len(c.q.RespBody))
		w.Boundary()
	}
	r.SimSecs = w.Now().Seconds()

	// ---- oracle ------------------------------------------------------------
	obsByID := map[string][]*UpObs{}
	for _, o := range w.UpObs() {
		if o.Kind == "proxied" {
			obsByID[o.ID] = append(obsByID[o.ID], o)
		}
	}
	nFwd, nTerm := 0, 0
	for _, c := range cases {
		q := c.q
		if !q.Done {
			r.Violate("request_hung", "c04", "request %s never finished\n%s", q.ID, sim.Goroutines("dispatcher", "reverseproxy"))
			return
		}
		obs := obsByID[q.ID]
		if c.expect != "forward" {
			nTerm++
			r.Checked("terminated_wellformed_and_not_forwarded")
			if len(obs) > 0 {
				r.Violate("terminated_but_forwarded", c.expect, "request %s (%s) was answered by the gateway but also reached upstream %s", q.ID, c.expect, obs[0].Endpoint)
				return
			}
			wantCode := map[string]int{"503-unknown-host": 503, "429-gate": 429, "503-no-endpoint": 503, "429-flow": 429, "429-flow-events": 429, "403-impersonation": 403}[c.expect]
			hasToken := false
			for _, h := range q.Headers {
				if h[0] == "Authorization" {
					hasToken = true
				}
			}
			if c.expect == "503-no-endpoint" && hasToken {
				// a bearer token cannot be reviewed without a reachable endpoint: 401 comes first (C12)
				wantCode = 401
			}
			st := statusOf(q)
			if q.Status != wantCode || st == nil || int(st.Code) != wantCode || st.Status != metav1.StatusFailure {
				r.Violate("bad_termination", c.expect, "request %s (%s): HTTP %d, body %q; want a Status with code %d", q.ID, c.expect, q.Status, trunc(q.RespBody, 200), wantCode)
				return
			}
			ra := q.RespHeader.Get("Retry-After")
			if wantCode == 503 && ra == "" {
				r.Violate("missing_retry_after", c.expect, "request %s (%s): 503 without Retry-After", q.ID, c.expect)
				return
			}
			if c.expect == "429-flow" && ra == "" {
				r.Violate("missing_retry_after", c.expect, "request %s: 429 (flow control) without Retry-After", q.ID)
				return
			}
			continue
		}
		// a request may reach the upstream a second time only the way net/http's own
		// transport replays one: idempotent method, no body, the first connection died
		// before any response; and a second copy is a faithful copy too
		if len(obs) > 1 {
			r.Checked("no_unfaithful_or_non_idempotent_replay")
			replayable := len(q.Body) == 0 && (q.Method == "GET" || q.Method == "HEAD" || q.Method == "OPTIONS" || q.Method == "TRACE")
			if !replayable {
				r.Violate("non_idempotent_request_forwarded_twice", q.Method, "request %s (%s, body of %d bytes) reached the upstream %d times (second copy: body of %d bytes)", q.ID, q.Method, len(q.Body), len(obs), len(obs[1].Body))
				return
			}
			for _, o2 := range obs[1:] {
				if o2.Method != obs[0].Method || o2.Path != obs[0].Path || o2.RawQuery != obs[0].RawQuery || !bytes.Equal(o2.Body, obs[0].Body) {
					r.Violate("replayed_copy_differs", "c04", "request %s reached the upstream again as %s %s?%s with %d body bytes (first copy: %s %s?%s, %d bytes)", q.ID, o2.Method, o2.Path, o2.RawQuery, len(o2.Body), obs[0].Method, obs[0].Path, obs[0].RawQuery, len(obs[0].Body))
					return
				}
			}
		}
		if midStream[q.ID] {
			if q.ReadErr == "" && bytes.Contains(q.RespBody, []byte("KubeGatewayInternalError")) {
				r.Probe("observation_status_json_appended_to_started_response_cleanly_terminated")
			} else if q.ReadErr != "" {
				r.Probe("observation_midstream_cut_seen_as_aborted_response")
			}
			continue
		}
		if _, bad := injected[q.ID]; bad {
			// fault configuration: the client must see an aborted or error
			// response, never a different well-formed body
			r.Checked("fault_never_yields_wrong_body")
			gwErr := false
			if st := statusOf(q); st != nil && q.Status == 502 && st.Code == 502 {
				gwErr = true // the gateway's own 502 Status
			}
			if q.ReadErr == "" && !gwErr && !bytes.Equal(q.RespBody, c.script.Body) {
				r.Violate("wrong_body_after_fault", "c04", "request %s: upstream connection was cut, yet the client got a complete, well-formed response %d with a different body (%d bytes, upstream meant status %d with %d bytes; tail %q)", q.ID, q.Status, len(q.RespBody), c.script.Status, len(c.script.Body), string(q.RespBody[max(0, len(q.RespBody)-160):]))
				return
			}
			continue
		}
		nFwd++
		if len(obs) == 0 {
			r.Violate("not_forwarded", "c04", "request %s %s %s should have been forwarded but no upstream saw it; client got %d %q", q.ID, q.Method, q.Target, q.Status, trunc(q.RespBody, 200))
			return
		}
		o := obs[0]
		r.Checked("request_fidelity")
		if o.Method != q.Method {
			r.Violate("method_changed", "c04", "request %s: method %s arrived as %s", q.ID, q.Method, o.Method)
			return
		}
		cu, err := url.ParseRequestURI(q.Target)
		if err != nil {
			r.Inconclusive("harness produced an unparsable target " + q.Target)
			return
		}
		if o.Path != cu.Path {
			r.Violate("path_changed", "c04", "request %s: path %q (decoded %q) arrived as %q", q.ID, q.Target, cu.Path, o.Path)
			return
		}
		wantQ, _ := url.ParseQuery(cu.RawQuery)
		gotQ, _ := url.ParseQuery(o.RawQuery)
		if !sameValues(wantQ, gotQ) {
			r.Violate("query_changed", "c04", "request %s: query %q arrived as %q", q.ID, cu.RawQuery, o.RawQuery)
			return
		}
		if !bytes.Equal(o.Body, q.Body) {
			r.Violate("body_changed", "c04", "request %s: body of %d bytes arrived as %d bytes", q.ID, len(q.Body), len(o.Body))
			return
		}
		// request headers
		sent := http.Header{}
		for _, h := range q.Headers {
			k := textproto.CanonicalMIMEHeaderKey(h[0])
			sent[k] = append(sent[k], h[1])
		}
		dropped := map[string]bool{}
		for _, v := range sent["Connection"] {
			for _, f := range strings.Split(v, ",") {
				dropped[textproto.CanonicalMIMEHeaderKey(strings.TrimSpace(f))] = true
			}
		}
		for k, vv := range sent {
			if hopHeaders[k] || dropped[k] || k == "Authorization" || strings.HasPrefix(k, "Impersonate-") || k == "X-Forwarded-For" || k == "Content-Length" {
				continue
			}
			if !equalStrings(o.Header[k], vv) {
				r.Violate("request_header_changed", k, "request %s: header %s %q arrived as %q", q.ID, k, vv, o.Header[k])
				return
			}
		}
		clientIP := q.Remote[:strings.LastIndex(q.Remote, ":")]
		wantXFF := clientIP
		if prior := sent["X-Forwarded-For"]; len(prior) > 0 {
			wantXFF = strings.Join(prior, ", ") + ", " + clientIP
		}
		if got := strings.Join(o.Header["X-Forwarded-For"], ", "); got != wantXFF {
			r.Violate("xff_wrong", "c04", "request %s: X-Forwarded-For %q, want %q", q.ID, got, wantXFF)
			return
		}
		for k := range o.Header {
			if _, ok := sent[k]; ok {
				if dropped[k] || (hopHeaders[k] && k != "Te") {
					r.Violate("hop_header_forwarded", k, "request %s: hop-by-hop header %s reached the upstream: %q", q.ID, k, o.Header[k])
					return
				}
				continue
			}
			switch k {
			case "Authorization", "X-Forwarded-For", "User-Agent", "Accept-Encoding", "Content-Length", "X-Sim-Id", "Impersonate-User", "Impersonate-Group", "Transfer-Encoding":
			default:
				if strings.HasPrefix(k, "Impersonate-Extra-") {
					continue
				}
				r.Violate("request_header_added", k, "request %s: the upstream received header %s=%q which the client never sent", q.ID, k, o.Header[k])
				return
			}
		}
		// response
		r.Checked("response_fidelity")
		sc := c.script
		if q.ReadErr != "" {
			r.Violate("response_broken", "c04", "request %s: client could not read the response: %s", q.ID, q.ReadErr)
			return
		}
		if q.Status != sc.Status {
			r.Violate("status_changed", fmt.Sprint(sc.Status), "request %s: upstream status %d relayed as %d", q.ID, sc.Status, q.Status)
			return
		}
		wantBody := sc.Body
		if !bytes.Equal(q.RespBody, wantBody) {
			r.Violate("response_body_changed", "c04", "request %s: upstream body of %d bytes relayed as %d bytes (response headers %v, stream pieces %d; wire: %d bytes, head %q ... tail %q)", q.ID, len(wantBody), len(q.RespBody), q.RespHeader, len(sc.Stream), q.Raw.Len(), trunc(q.Raw.Bytes(), 300), string(q.Raw.Bytes()[max(0, q.Raw.Len()-400):]))
			return
		}
		upDropped := map[string]bool{}
		for _, v := range sc.Header["Connection"] {
			for _, f := range strings.Split(v, ",") {
				upDropped[textproto.CanonicalMIMEHeaderKey(strings.TrimSpace(f))] = true
			}
		}
		for k, vv := range sc.Header {
			if hopHeaders[k] || upDropped[k] {
				continue
			}
			if !containsInOrder(q.RespHeader[k], vv) {
				r.Violate("response_header_changed", k, "request %s: upstream header %s %q relayed as %q", q.ID, k, vv, q.RespHeader[k])
				return
			}
		}
		for k, vv := range q.RespHeader {
			if _, ok := sc.Header[k]; ok {
				continue
			}
			switch k {
			case "Cache-Control", "Date", "Content-Length", "Transfer-Encoding", "Connection":
			case "Content-Type":
				// sniffed only when the upstream sent none
			default:
				r.Violate("response_header_added", k, "request %s: the client received header %s=%q which the upstream never sent", q.ID, k, vv)
				return
			}
		}
	}
	r.ProbeN("forwarded_checked", nFwd)
	r.ProbeN("terminated_checked", nTerm)
	r.ProbeN("faulted", len(injected))
	r.ProbeN("slow_upstream_answers", slowed)
	r.Nontrivial = nFwd > 0
	var sample []string
	for i, c := range cases {
		if i < 4 {
			sample = append(sample, fmt.Sprintf("%s %s host=%s body=%dB -> upstream %d body=%dB (%s)", c.q.Method, c.q.Target, c.q.Host, len(c.q.Body), c.script.Status, len(c.script.Body), c.expect))
		}
	}
	r.Sample = map[string]interface{}{"requests": len(cases), "examples": sample}
}

func trunc(b []byte, n int) string {
	if len(b) > n {
		return string(b[:n]) + "..."
	}
	return string(b)
}

func equalStrings(a, b []string) bool {
	if len(a) != len(b) {
		return false
	}
	for i := range a {
		if a[i] != b[i] {
			return false
		}
	}
	return true
}

// containsInOrder: every value of want occurs in got, in the same relative order.
func containsInOrder(got, want []string) bool {
	i := 0
	for _, g := range got {
		if i < len(want) && g == want[i] {
			i++
		}
	}
	return i == len(want)
}

func sameValues(a, b url.Values) bool {
	if len(a) != len(b) {
		return false
	}
	var ks []string
	for k := range a {
		ks = append(ks, k)
	}
	sort.Strings(ks)
	for _, k := range ks {
		if !equalStrings(a[k], b[k]) {
			return false
		}
	}
	return true
}
