package gw

import (
	"fmt"
	"math"
	"regexp"
	"runtime/debug"
	"strings"
	"time"

	utilruntime "k8s.io/apimachinery/pkg/util/runtime"

	proxyv1alpha1 "github.com/kubewharf/kubegateway/pkg/apis/proxy/v1alpha1"
	"github.com/kubewharf/kubegateway/pkg/clusters/features"
	"github.com/kubewharf/kubegateway/pkg/ratelimiter/store/local"

	"kgsim/sim"
)

func i32(v int32) *int32 { return &v }

// c16Mutate applies one drawn mutation to a valid object and names it.
func c16Mutate(o *proxyv1alpha1.UpstreamCluster, draw func(int) int, certs []*certSet) string {
	eps := []string{"", "10.1.0.1:6443", "http://%zz", "https://%zz", "http://a b:80", "ftp://10.1.0.1", "http://user:pw@10.1.0.1:6443",
		"HTTP://10.1.0.1:6443", "http://10.1.0.1:6443/prefix", "http://[::1", "https://10.1.0.2:6443", "http://10.1.0.1:6443", "http://:6443", "http://10.1.0.1:notaport", "http:// 10.1.0.1"}
	nums := []int32{0, -1, 1, 2, 100, math.MaxInt32, math.MinInt32}
	mif := func() *proxyv1alpha1.MaxRequestsInflightFlowControlSchema {
		if draw(5) == 0 {
			return nil
		}
		return &proxyv1alpha1.MaxRequestsInflightFlowControlSchema{Max: nums[draw(len(nums))]}
	}
	tb := func() *proxyv1alpha1.TokenBucketFlowControlSchema {
		if draw(5) == 0 {
			return nil
		}
		return &proxyv1alpha1.TokenBucketFlowControlSchema{QPS: nums[draw(len(nums))], Burst: nums[draw(len(nums))]}
	}
	switch draw(12) {
	case 0:
		e := eps[draw(len(eps))]
		if len(o.Spec.Servers) > 0 && draw(2) == 0 {
			o.Spec.Servers[draw(len(o.Spec.Servers))].Endpoint = e
		} else {
			o.Spec.Servers = append(o.Spec.Servers, proxyv1alpha1.UpstreamClusterServer{Endpoint: e})
		}
		return fmt.Sprintf("server endpoint %q", e)
	case 1:
		switch draw(3) {
		case 0:
			o.Spec.Servers = nil
			return "no servers"
		case 1:
			o.Spec.Servers = []proxyv1alpha1.UpstreamClusterServer{{Endpoint: eps[draw(len(eps))]}}
			return fmt.Sprintf("only server %q", o.Spec.Servers[0].Endpoint)
		default:
			o.Spec.Servers = append(o.Spec.Servers, o.Spec.Servers...)
			return "duplicated servers"
		}
	case 2:
		cc := &o.Spec.ClientConfig
		switch draw(8) {
		case 0:
			cc.QPS, cc.Burst = nums[draw(len(nums))], nums[draw(len(nums))]
		case 1:
			cc.QPSDivisor = nums[draw(len(nums))]
		case 2:
			cc.KeyData, cc.CertData = certs[0].key, certs[1].cert // mismatched pair
		case 3:
			cc.CertData = []byte("-----BEGIN CERTIFICATE-----\nZm9v\n-----END CERTIFICATE-----\n")
			cc.KeyData = certs[0].key
		case 4:
			cc.CAData = []byte("not pem")
		case 5:
			cc.BearerToken = nil
		case 6:
			cc.Insecure = !cc.Insecure
		case 7:
			cc.KeyData, cc.CertData = certs[0].key, nil
		}
		return "clientConfig"
	case 3:
		ss := &o.Spec.SecureServing
		switch draw(6) {
		case 0:
			ss.CertData, ss.KeyData = certs[0].cert, certs[1].key
		case 1:
			ss.CertData, ss.KeyData = certs[0].cert[:len(certs[0].cert)/2], certs[0].key
		case 2:
			ss.CertData, ss.KeyData = certs[0].cert, nil
		case 3:
			ss.ClientCAData = []byte("garbage")
		case 4:
			ss.ClientCAData = certs[0].ca[:40]
		case 5:
			ss.CertData, ss.KeyData = []byte{}, []byte("x")
		}
		return "secureServing"
	case 4, 5, 6:
		s := proxyv1alpha1.FlowControlSchema{Name: []string{"fc-a", "fc-b", "", "fc-a"}[draw(4)]}
		members := draw(32)
		if members&1 != 0 {
			s.Exempt = &proxyv1alpha1.ExemptFlowControlSchema{}
		}
		if members&2 != 0 {
			s.MaxRequestsInflight = mif()
		}
		if members&4 != 0 {
			s.TokenBucket = tb()
		}
		if members&8 != 0 {
			s.GlobalMaxRequestsInflight = mif()
		}
		if members&16 != 0 {
			s.GlobalTokenBucket = tb()
		}
		s.Strategy = []proxyv1alpha1.LimitStrategy{"", proxyv1alpha1.LocalLimit, proxyv1alpha1.GlobalAllocateLimit, proxyv1alpha1.GlobalCountLimit, "bogus"}[draw(5)]
		if draw(2) == 0 && len(o.Spec.FlowControl.Schemas) > 0 {
			o.Spec.FlowControl.Schemas[draw(len(o.Spec.FlowControl.Schemas))] = s
		} else {
			o.Spec.FlowControl.Schemas = append(o.Spec.FlowControl.Schemas, s)
		}
		return fmt.Sprintf("schema %q members=%05b strategy=%q", s.Name, members, s.Strategy)
	case 7:
		if len(o.Spec.DispatchPolicies) == 0 || len(o.Spec.DispatchPolicies[0].Rules) == 0 {
			o.Spec.DispatchPolicies = nil
			return "no policies"
		}
		switch draw(6) {
		case 0:
			o.Spec.DispatchPolicies = nil
			return "no policies"
		case 1:
			o.Spec.DispatchPolicies[0].Rules = nil
			return "policy without rules"
		case 2:
			o.Spec.DispatchPolicies[0].Rules[0].Verbs = nil
			return "rule without verbs"
		case 3:
			o.Spec.DispatchPolicies[0].UpstreamSubset = []string{"http://10.9.9.9:1"}
			return "dangling subset"
		case 4:
			o.Spec.DispatchPolicies[0].FlowControlSchemaName = "nosuch"
			return "dangling schema reference"
		default:
			o.Spec.DispatchPolicies[0].Rules[0].Resources = []string{"pods/*"}
			o.Spec.DispatchPolicies[0].LogMode = "loud"
			return "resource/* and bad log mode"
		}
	case 8:
		g := []string{"Bogus=true", "DenyAllRequests=maybe", "=,", "DenyAllRequests=true,Tracing=true", "GlobalRateLimiter=true", "DenyAllRequests", ",", "Tracing=false,"}[draw(8)]
		o.Annotations = map[string]string{features.FeatureGateAnnotationKey: g}
		return "gates " + g
	case 9:
		n := []string{"Upper", "", "under_score", strings.Repeat("x", 300), "-lead", "ok.name", "a..b"}[draw(7)]
		o.Name = n
		return fmt.Sprintf("name %.20q", n)
	case 10:
		o.Spec.Logging.Mode = []proxyv1alpha1.LogMode{"on", "off", "", "verbose"}[draw(4)]
		return "logging " + string(o.Spec.Logging.Mode)
	default:
		o.Spec.SecureServing.ServerNames = []string{"", "A.b", strings.Repeat("y", 70), "sp ace"}[:1+draw(4)]
		return "serverNames"
	}
}

// RunC16: admission is total, and what it admits the data plane can apply.
func RunC16(r *sim.Run) {
	t := r.T
	w := NewWorld(r, defaultOpts())
	defer w.Stop()
	var panics []string
	utilruntime.ReallyCrash = false
	utilruntime.PanicHandlers = []func(interface{}){func(p interface{}) {
		panics = append(panics, fmt.Sprintf("%v @ %s", p, sim.TopRepoFrame(string(debug.Stack()))))
	}}
	certs := []*certSet{genCertSet("one"), genCertSet("two")}
	w.AddClusterStub("base", 2, 0)
	template := func(name string) *proxyv1alpha1.UpstreamCluster {
		o := BaseCluster(name, w.EndpointsOf("base"))
		o.Spec.FlowControl.Schemas = []proxyv1alpha1.FlowControlSchema{
			{Name: "fc-a", FlowControlSchemaConfiguration: proxyv1alpha1.FlowControlSchemaConfiguration{MaxRequestsInflight: &proxyv1alpha1.MaxRequestsInflightFlowControlSchema{Max: 5}}},
			{Name: "fc-b", Strategy: proxyv1alpha1.GlobalAllocateLimit, FlowControlSchemaConfiguration: proxyv1alpha1.FlowControlSchemaConfiguration{
				TokenBucket: &proxyv1alpha1.TokenBucketFlowControlSchema{QPS: 5, Burst: 10}, GlobalTokenBucket: &proxyv1alpha1.TokenBucketFlowControlSchema{QPS: 50, Burst: 100}}},
		}
		o.Spec.DispatchPolicies[0].FlowControlSchemaName = "fc-a"
		o.Spec.SecureServing.CertData, o.Spec.SecureServing.KeyData, o.Spec.SecureServing.ClientCAData = certs[0].cert, certs[0].key, certs[0].ca
		return o
	}
	// an existing valid cluster that mutated versions are applied onto (update path)
	if err := w.Apply(template("existing")); err != nil {
		r.Inconclusive("template rejected: " + firstLine(err.Error()))
		return
	}
	w.Boundary()

	nObj := t.Range(4, 14)
	admitted, rejected := 0, 0
	var sample []string
	for i := 0; i < nObj; i++ {
		update := t.Draw(3) == 0
		name := fmt.Sprintf("obj%d", i)
		if update {
			name = "existing"
		}
		o := template(name)
		var descs []string
		if !update && t.Draw(4) == 0 {
			// the same cluster reached over TLS: endpoints https, a CA and a client certificate
			// (the stubs speak plain HTTP, so its probes fail; creating it must still work)
			for k := range o.Spec.Servers {
				o.Spec.Servers[k].Endpoint = strings.Replace(o.Spec.Servers[k].Endpoint, "http://", "https://", 1)
			}
			for k := range o.Spec.DispatchPolicies {
				for j, e := range o.Spec.DispatchPolicies[k].UpstreamSubset {
					o.Spec.DispatchPolicies[k].UpstreamSubset[j] = strings.Replace(e, "http://", "https://", 1)
				}
			}
			o.Spec.ClientConfig.CAData = certs[0].ca
			o.Spec.ClientConfig.CertData, o.Spec.ClientConfig.KeyData = certs[0].cert, certs[0].key
			descs = append(descs, "https endpoints")
		}
		for k := 1 + t.Pick([]int{6, 3, 1}); k > 0; k-- {
			descs = append(descs, c16Mutate(o, t.Draw, certs))
		}
		if update && o.Name != "existing" {
			update = false
		}
		desc := strings.Join(descs, " + ")
		var admitErr error
		var admitPanic string
		func() {
			defer func() {
				if p := recover(); p != nil {
					admitPanic = fmt.Sprintf("%v @ %s", p, sim.TopRepoFrame(string(debug.Stack())))
				}
			}()
			admitErr = w.Apply(o)
		}()
		r.Checked("validation_total")
		if admitPanic != "" {
			r.Violate("validation_panicked", admitPanic[strings.LastIndex(admitPanic, "@")+1:], "validating an object (%s) panicked: %s", desc, admitPanic)
			return
		}
		if admitErr != nil {
			rejected++
			r.Logf("obj %d (%s): rejected: %s", i, desc, pemRE.ReplaceAllString(firstLine(admitErr.Error()), "<pem>"))
			continue
		}
		admitted++
		if len(sample) < 4 {
			sample = append(sample, desc)
		}
		// soundness of the rejection: what the statement lists as breaking the data plane
		// must not get in: negative or zero rates, negative bursts, negative concurrency
		r.Checked("out_of_range_flow_control_rejected")
		for _, s := range o.Spec.FlowControl.Schemas {
			bad := ""
			for _, tb := range []*proxyv1alpha1.TokenBucketFlowControlSchema{s.TokenBucket, s.GlobalTokenBucket} {
				if tb != nil && (tb.QPS <= 0 || tb.Burst <= 0) {
					bad = fmt.Sprintf("token bucket qps=%d burst=%d", tb.QPS, tb.Burst)
				}
			}
			for _, m := range []*proxyv1alpha1.MaxRequestsInflightFlowControlSchema{s.MaxRequestsInflight, s.GlobalMaxRequestsInflight} {
				if m != nil && m.Max < 0 {
					bad = fmt.Sprintf("max requests in flight %d", m.Max)
				}
			}
			if bad != "" {
				r.Violate("out_of_range_flow_control_admitted", strings.Fields(bad)[0], "object admitted (%s) although schema %q has an out-of-range configuration: %s", desc, s.Name, bad)
				return
			}
		}
		// let the controller apply it (first sync, requeue, probes)
		w.Advance(6 * time.Second)
		w.Boundary()
		r.Checked("admitted_object_applies")
		if len(panics) > 0 {
			r.Violate("apply_panicked", panics[0][strings.LastIndex(panics[0], "@")+1:], "object admitted (%s), then a gateway goroutine panicked applying it: %s", desc, panics[0])
			return
		}
		info, ok := w.Ctl.Get(o.Name)
		if !ok || info.Cluster != strings.ToLower(o.Name) {
			r.Violate("admitted_but_not_applied", "gateway", "object %q admitted (%s) but the gateway has no such cluster afterwards", o.Name, desc)
			return
		}
		if update {
			// the update must have taken effect: compare with a twin built from the object
			want := describeCluster(w.Twin([]*proxyv1alpha1.UpstreamCluster{w.Latest(o.Name)}), o.Name, []string{"fc-a", "fc-b"}, nil)
			got := describeCluster(w.Ctl, o.Name, []string{"fc-a", "fc-b"}, nil)
			for k, v := range want {
				if got[k] != v && !strings.HasPrefix(k, "route.") {
					r.Violate("admitted_update_not_applied", k, "update of %q admitted (%s) but %s is %q instead of %q", o.Name, desc, k, got[k], v)
					return
				}
			}
		}
		// the limiter server's part: flow-control schemas into its store
		var lp string
		func() {
			defer func() {
				if p := recover(); p != nil {
					lp = fmt.Sprintf("%v @ %s", p, sim.TopRepoFrame(string(debug.Stack())))
				}
			}()
			st := local.NewLocalStore()
			st.SyncFlowControl(o.Name, w.Latest(o.Name).Spec.FlowControl)
			for _, s := range w.Latest(o.Name).Spec.FlowControl.Schemas {
				if s.GlobalMaxRequestsInflight != nil || s.GlobalTokenBucket != nil {
					if _, err := st.GetFlowControl(o.Name, s.Name); err != nil {
						lp = "limiter store has no flow control for admitted global schema " + s.Name + ": " + err.Error()
					}
				}
			}
		}()
		r.Checked("admitted_object_applies_on_limiter_store")
		if lp != "" {
			r.Violate("limiter_apply_failed", "store", "object admitted (%s) but the limiter's store could not apply it: %s", desc, lp)
			return
		}
		r.Logf("obj %d (%s): admitted and applied", i, desc)
	}
	r.SimSecs = w.Now().Seconds()
	r.ProbeN("admitted", admitted)
	r.ProbeN("rejected", rejected)
	r.Nontrivial = admitted > 0 && rejected > 0
	r.Sample = map[string]interface{}{"objects": nObj, "admitted": admitted, "rejected": rejected, "admitted_examples": sample}
}

// key material is generated per process; it must not reach the trace
var pemRE = regexp.MustCompile(`-----BEGIN [A-Z ]+-----(\\n|[A-Za-z0-9+/=])*`)
