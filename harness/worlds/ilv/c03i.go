package ilv

import (
	"fmt"
	"strings"

	metav1 "k8s.io/apimachinery/pkg/apis/meta/v1"

	proxyv1alpha1 "github.com/kubewharf/kubegateway/pkg/apis/proxy/v1alpha1"
	"github.com/kubewharf/kubegateway/pkg/clusters"

	"kgsim/sim"
)

// c03Spec is one version of the cluster's routing-relevant spec: the servers
// are always the same, what changes is which are disabled, the order and number
// of dispatch policies and their upstream subsets.
type c03Spec struct {
	disabled map[string]bool
	policies []c03Policy
}

type c03Policy struct {
	verb   string
	subset []string // nil = all endpoints
}

func (s *c03Spec) subsetOf(verb string, all []string) ([]string, bool) {
	for _, p := range s.policies {
		if p.verb == verb {
			if p.subset == nil {
				return all, true
			}
			return p.subset, true
		}
	}
	return nil, false
}

func (s *c03Spec) String() string {
	var ps []string
	for _, p := range s.policies {
		sub := "all"
		if p.subset != nil {
			var short []string
			for _, e := range p.subset {
				short = append(short, e[7:9])
			}
			sub = strings.Join(short, ",")
		}
		ps = append(ps, p.verb+"->"+sub)
	}
	var dis []string
	for e, d := range s.disabled {
		if d {
			dis = append(dis, e[7:9])
		}
	}
	sortStrings(dis)
	return fmt.Sprintf("[%s] disabled=%v", strings.Join(ps, " | "), dis)
}

func sortStrings(a []string) {
	for i := 1; i < len(a); i++ {
		for j := i; j > 0 && a[j] < a[j-1]; j-- {
			a[j], a[j-1] = a[j-1], a[j]
		}
	}
}

// RunC03I: requests pick an endpoint (MatchAttributes, Pop - what the dispatcher
// does) while the controller applies spec updates (ClusterInfo.Sync), all under
// a drawn statement-level schedule. All endpoints are healthy throughout; the
// updates disable and enable servers, reorder the dispatch policies, put a
// policy in front of the others or take it away, and change subsets.
//
// Oracle. A pick made between the call and the return of the request sees some
// mix of the spec versions that were in force at some moment of the call (the
// last one applied before it began up to the last one whose application had
// begun before it ended): the endpoint must be in the verb's subset in one of
// those versions and enabled in one of them. "No policy matches" needs a
// version without a policy for the verb, "no ready endpoint" is wrong if some
// endpoint is in the verb's subset and enabled in every one of those versions.
func RunC03I(r *sim.Run) {
	t := r.T
	k := t.Range(2, 4)
	var eps []string
	for i := 0; i < k; i++ {
		eps = append(eps, fmt.Sprintf("http://e%d:80", i))
	}
	drawSub := func() []string {
		if t.Draw(4) == 0 {
			return nil
		}
		var out []string
		for _, e := range eps {
			if t.Draw(2) == 0 {
				out = append(out, e)
			}
		}
		if len(out) == 0 {
			out = []string{eps[t.Draw(len(eps))]}
		}
		return out
	}
	cur := &c03Spec{disabled: map[string]bool{}, policies: []c03Policy{{"get", drawSub()}, {"list", drawSub()}}}
	clone := func(s *c03Spec) *c03Spec {
		n := &c03Spec{disabled: map[string]bool{}}
		for e, d := range s.disabled {
			n.disabled[e] = d
		}
		n.policies = append(n.policies, s.policies...)
		return n
	}
	nVer := t.Range(1, 5)
	versions := []*c03Spec{cur}
	for v := 0; v < nVer; v++ {
		n := clone(versions[len(versions)-1])
		switch t.Pick([]int{3, 3, 3, 3}) {
		case 0: // a server is disabled / enabled
			e := eps[t.Draw(len(eps))]
			n.disabled[e] = !n.disabled[e]
		case 1: // the policies change places
			n.policies = append(n.policies[1:], n.policies[0])
		case 2: // a policy is put in front (it takes its verb over), or the front one is removed
			if len(n.policies) > 2 {
				n.policies = n.policies[1:]
			} else {
				n.policies = append([]c03Policy{{[]string{"get", "list"}[t.Draw(2)], drawSub()}}, n.policies...)
			}
		case 3: // a subset changes
			i := t.Draw(len(n.policies))
			n.policies[i].subset = drawSub()
		}
		versions = append(versions, n)
	}
	toObj := func(s *c03Spec) *proxyv1alpha1.UpstreamCluster {
		cl := &proxyv1alpha1.UpstreamCluster{ObjectMeta: metav1.ObjectMeta{Name: "c03"}}
		for _, e := range eps {
			sv := proxyv1alpha1.UpstreamClusterServer{Endpoint: e}
			if s.disabled[e] {
				d := true
				sv.Disabled = &d
			}
			cl.Spec.Servers = append(cl.Spec.Servers, sv)
		}
		for _, p := range s.policies {
			cl.Spec.DispatchPolicies = append(cl.Spec.DispatchPolicies, proxyv1alpha1.DispatchPolicy{UpstreamSubset: p.subset,
				Rules: []proxyv1alpha1.DispatchPolicyRule{{Verbs: []string{p.verb}, APIGroups: []string{"*"}, Resources: []string{"*"}}}})
		}
		return cl
	}
	noHealth := func(e *clusters.EndpointInfo) bool { return false }
	info, err := clusters.CreateClusterInfo(toObj(versions[0]), noHealth, "", nil)
	if err != nil {
		r.Inconclusive("setup: " + err.Error())
		return
	}
	defer info.Stop()
	for _, e := range eps {
		if ep, ok := info.Endpoints.Load(e); ok {
			ep.UpdateStatus(true, "sim", "sim")
		}
	}

	sc := sim.NewSched(r)
	sc.Install()
	defer sc.Uninstall()

	var stamp int64
	// applied[v] = stamps of the call and the return of Sync(version v); version 0 is in force from the start
	type span struct{ call, ret int64 }
	applied := []span{{0, 0}}
	type pick struct {
		thread    int
		verb      string
		call, ret int64
		ep        string
		errText   string
	}
	var picks []*pick
	failMsg := ""
	cfg := sc.Go("sync", func() {
		for v := 1; v < len(versions); v++ {
			for i := t.Draw(3); i > 0; i-- {
				sc.Boundary()
			}
			sc.Boundary()
			stamp++
			sp := span{call: stamp}
			applied = append(applied, sp)
			if err := info.Sync(toObj(versions[v])); err != nil {
				failMsg = "Sync: " + err.Error()
				return
			}
			stamp++
			applied[v].ret = stamp
			r.Logf("applied v%d %s", v, versions[v])
		}
	})
	cfg.Weight = []int{1, 4, 16}[t.Draw(3)]
	if t.Draw(2) == 0 {
		cfg.StallAt, cfg.StallFor = 1+t.Draw(60*len(versions)), 10+t.Draw(60)
	}
	nReq := t.Range(1, 3)
	for ti := 0; ti < nReq; ti++ {
		ti := ti
		n := t.Range(2, 8)
		sc.Go(fmt.Sprintf("req%d", ti), func() {
			for j := 0; j < n; j++ {
				sc.Boundary()
				verb := []string{"get", "list"}[t.Draw(2)]
				stamp++
				p := &pick{thread: ti, verb: verb, call: stamp}
				picker, err := info.MatchAttributes(c14Attrs(verb))
				if err != nil {
					p.errText = "match: " + err.Error()
				} else if ep, err := picker.Pop(); err != nil {
					p.errText = "pop: " + err.Error()
				} else {
					p.ep = ep.Endpoint
				}
				stamp++
				p.ret = stamp
				picks = append(picks, p)
			}
		})
	}
	style := t.Draw(2)
	var why string
	if t.Draw(2) == 0 {
		why = sc.RunRounds(8000, style, nil)
	} else {
		why = sc.RunAll(8000, style, nil)
	}
	for _, th := range sc.Threads() {
		if th.Panic != nil {
			r.Violate("panic", th.PanicTop, "thread %s panicked: %v", th.Name, th.Panic)
		}
	}
	if r.Violated() {
		return
	}
	if failMsg != "" {
		r.Inconclusive(failMsg)
		return
	}
	if why != "" {
		if why == "deadlock" {
			r.Violate("deadlock", "c03i", "all threads blocked: %s", sc.Describe())
		} else {
			r.Inconclusive("step budget: " + why)
		}
		return
	}
	r.Logf("v0 %s", versions[0])
	overlapped := 0
	for _, p := range picks {
		// versions in force at some moment of the call
		lo, hi := 0, 0
		for v := 1; v < len(applied); v++ {
			if applied[v].ret != 0 && applied[v].ret < p.call {
				lo = v
			}
			if applied[v].call < p.ret {
				hi = v
			}
		}
		if hi > lo {
			overlapped++
		}
		var desc []string
		for v := lo; v <= hi; v++ {
			desc = append(desc, fmt.Sprintf("v%d %s", v, versions[v]))
		}
		inForce := strings.Join(desc, " ;; ")
		switch {
		case p.ep != "":
			r.Checked("picked_endpoint_eligible")
			inSub, enabled := false, false
			for v := lo; v <= hi; v++ {
				sub, _ := versions[v].subsetOf(p.verb, eps)
				for _, e := range sub {
					if e == p.ep {
						inSub = true
					}
				}
				if !versions[v].disabled[p.ep] {
					enabled = true
				}
			}
			if !inSub {
				r.Violate("forwarded_to_ineligible_endpoint", "not in the matched policy's subset", "a %s request picked %s, which is in the verb's upstream subset in none of the spec versions in force during the call: %s", p.verb, p.ep, inForce)
				return
			}
			if !enabled {
				r.Violate("forwarded_to_ineligible_endpoint", "the endpoint was disabled", "a %s request picked %s, which is disabled in every spec version in force during the call: %s", p.verb, p.ep, inForce)
				return
			}
		case strings.HasPrefix(p.errText, "match:"):
			r.Checked("no_policy_only_without_policy")
			missing := false
			for v := lo; v <= hi; v++ {
				if _, ok := versions[v].subsetOf(p.verb, eps); !ok {
					missing = true
				}
			}
			if !missing {
				r.Violate("no_policy_matched_although_one_exists", "c03i", "a %s request was told %q; every spec version in force during the call has a policy for it: %s", p.verb, p.errText, inForce)
				return
			}
		default:
			r.Checked("503_only_without_eligible_endpoint")
			for _, e := range eps {
				always := true
				for v := lo; v <= hi; v++ {
					sub, _ := versions[v].subsetOf(p.verb, eps)
					in := false
					for _, x := range sub {
						if x == e {
							in = true
						}
					}
					if !in || versions[v].disabled[e] {
						always = false
					}
				}
				if always {
					r.Violate("503_with_eligible_endpoint", "c03i", "a %s request was told %q although %s is healthy, enabled and in the verb's subset in every spec version in force during the call: %s", p.verb, p.errText, e, inForce)
					return
				}
			}
		}
	}
	r.ProbeN("picks", len(picks))
	r.ProbeN("picks_overlapping_an_update", overlapped)
	r.ProbeN("spec_versions", len(versions)-1)
	r.ProbeN("yields", sc.Yields)
	r.Nontrivial = overlapped > 0
	r.Sample = map[string]interface{}{"endpoints": k, "versions": len(versions), "request_threads": nReq, "picks": len(picks), "overlapping": overlapped}
}
