package ilv

import (
	"fmt"
	"sort"
	"strings"

	metav1 "k8s.io/apimachinery/pkg/apis/meta/v1"
	"k8s.io/apiserver/pkg/authentication/user"
	"k8s.io/apiserver/pkg/authorization/authorizer"

	proxyv1alpha1 "github.com/kubewharf/kubegateway/pkg/apis/proxy/v1alpha1"
	"github.com/kubewharf/kubegateway/pkg/clusters"

	"kgsim/sim"
)

func c14Attrs(verb string) authorizer.Attributes {
	return authorizer.AttributesRecord{
		User:            &user.DefaultInfo{Name: "alice", Groups: []string{"system:authenticated"}},
		Verb:            verb,
		APIGroup:        "",
		APIVersion:      "v1",
		Resource:        "pods",
		Namespace:       "default",
		ResourceRequest: true,
		Path:            "/api/v1/namespaces/default/pods",
	}
}

func fact(k int) int {
	f := 1
	for i := 2; i <= k; i++ {
		f *= i
	}
	return f
}

// RunC14 explores concurrent pickers over a stable ready set, with other
// pickers (a second policy over the same endpoints, and PickOne as used by the
// authenticator) interleaved, and checks the spread of the measured policy.
func RunC14(r *sim.Run) {
	t := r.T
	explicit := t.Draw(3) != 0 // 2/3 explicit subset, 1/3 all endpoints
	k := t.Range(1, 5)
	if !explicit {
		k = t.Range(1, 3)
	}
	var eps []string
	for i := 0; i < k; i++ {
		eps = append(eps, fmt.Sprintf("http://e%d:80", i))
	}
	// subset of the measured policy (explicit: a drawn sub-list in drawn order)
	subset := append([]string(nil), eps...)
	if explicit {
		for i := len(subset) - 1; i > 0; i-- {
			j := t.Draw(i + 1)
			subset[i], subset[j] = subset[j], subset[i]
		}
		subset = subset[:t.Range(1, len(subset))]
	}
	nPick := t.Range(1, 3)
	nNoise := t.Draw(3)
	style := t.Draw(2)

	// tape-owned map order (hook H4): any order is legal for a map
	clusters.VerifOrderNames = func(names []string) []string {
		sort.Strings(names)
		for i := len(names) - 1; i > 0; i-- {
			j := t.Draw(i + 1)
			names[i], names[j] = names[j], names[i]
		}
		return names
	}
	defer func() { clusters.VerifOrderNames = nil }()

	cl := &proxyv1alpha1.UpstreamCluster{ObjectMeta: metav1.ObjectMeta{Name: "c14"}}
	for _, e := range eps {
		cl.Spec.Servers = append(cl.Spec.Servers, proxyv1alpha1.UpstreamClusterServer{Endpoint: e})
	}
	rule := func(verb string) []proxyv1alpha1.DispatchPolicyRule {
		return []proxyv1alpha1.DispatchPolicyRule{{Verbs: []string{verb}, APIGroups: []string{"*"}, Resources: []string{"*"}}}
	}
	p1 := proxyv1alpha1.DispatchPolicy{Rules: rule("get")}
	p2 := proxyv1alpha1.DispatchPolicy{Rules: rule("list")}
	if explicit {
		p1.UpstreamSubset = subset
		p2.UpstreamSubset = subset
	}
	cl.Spec.DispatchPolicies = []proxyv1alpha1.DispatchPolicy{p1, p2}
	noHealth := func(e *clusters.EndpointInfo) bool { return false }
	info, err := clusters.CreateClusterInfo(cl, noHealth, "", nil)
	if err != nil {
		r.Inconclusive("setup: " + err.Error())
		return
	}
	defer info.Stop()
	ready := map[string]bool{}
	setReady := func(e string, ok bool) {
		ep, found := info.Endpoints.Load(e)
		if !found {
			return
		}
		ep.UpdateStatus(ok, "sim", "sim")
		ready[e] = ok
	}
	for _, e := range eps {
		setReady(e, true)
	}

	sc := sim.NewSched(r)
	sc.Install()
	defer sc.Uninstall()

	type pick struct {
		thread int
		ep     string
		round  int
	}
	var picks []pick // measured policy only, in completion order
	round := 0
	stretchStart := 0 // index into picks
	nStretch := t.Range(1, 3)
	perStretch := make([]int, nStretch)
	for i := range perStretch {
		perStretch[i] = t.Range(2, 20)
	}
	remaining := 0
	done := false
	noisePicks := 0
	failMsg := ""

	warm, growLeft, grown := 0, 0, 0 // see the "grow" thread below
	var growObj *proxyv1alpha1.UpstreamCluster
	growEp := ""
	for pi := 0; pi < nPick; pi++ {
		pi := pi
		pth := sc.Go(fmt.Sprintf("pick%d", pi), func() {
			for {
				sc.Boundary()
				if done {
					return
				}
				if remaining <= 0 {
					if warm > 0 {
						// traffic goes on while a server is being added (not measured: the ready set is changing)
						warm--
						if picker, err := info.MatchAttributes(c14Attrs("get")); err == nil {
							_, _ = picker.Pop()
						}
					}
					continue
				}
				remaining--
				picker, err := info.MatchAttributes(c14Attrs("get"))
				if err != nil {
					failMsg = "MatchAttributes: " + err.Error()
					return
				}
				ep, err := picker.Pop()
				if err != nil {
					picks = append(picks, pick{pi, "", round})
					continue
				}
				picks = append(picks, pick{pi, ep.Endpoint, round})
			}
		})
		if t.Draw(3) == 0 {
			// a request's goroutine is descheduled once at an arbitrary statement
			pth.StallAt, pth.StallFor = 1+t.Draw(40), 20+t.Draw(200)
		}
	}
	noiseLeft := 0
	for ni := 0; ni < nNoise; ni++ {
		ni := ni
		sc.Go(fmt.Sprintf("noise%d", ni), func() {
			for {
				sc.Boundary()
				if done {
					return
				}
				if noiseLeft <= 0 {
					continue
				}
				noiseLeft--
				noisePicks++
				if ni%2 == 0 {
					_, _ = info.PickOne() // what the authenticator/authorizer do per request
				} else {
					if picker, err := info.MatchAttributes(c14Attrs("list")); err == nil {
						_, _ = picker.Pop()
					}
				}
			}
		})
	}

	// a server is added between two stretches (policies over all endpoints only): the
	// update is applied by a thread of its own while unmeasured traffic goes on; the new
	// endpoint becomes ready afterwards and the next stretch is measured over the larger set
	if !explicit {
		sc.Go("grow", func() {
			for {
				sc.Boundary()
				if done {
					return
				}
				if growLeft <= 0 {
					continue
				}
				if err := info.Sync(growObj); err != nil {
					failMsg = "Sync (grow): " + err.Error()
					return
				}
				growLeft--
			}
		})
	}

	// a re-application of the cluster with an unchanged server list (informer
	// resync, an edit of an unrelated field): the ready set stays what it was
	syncLeft, resyncs := 0, 0
	hasSync := t.Draw(2) == 1
	if hasSync {
		sc.Go("resync", func() {
			for {
				sc.Boundary()
				if done {
					return
				}
				if syncLeft <= 0 || remaining <= 0 || t.Draw(3) != 0 {
					continue
				}
				syncLeft--
				v := cl.DeepCopy()
				switch t.Draw(3) {
				case 1:
					v.Spec.Logging.Mode = proxyv1alpha1.LogOff
				case 2:
					v.Labels = map[string]string{"touched": fmt.Sprint(resyncs)}
				}
				if err := info.Sync(v); err != nil {
					failMsg = "Sync: " + err.Error()
					return
				}
				resyncs++
			}
		})
	}

	readyList := func() []string {
		var l []string
		for _, e := range subset {
			if ready[e] {
				l = append(l, e)
			}
		}
		return l
	}
	checkStretch := func() {
		ps := picks[stretchStart:]
		rl := readyList()
		kk := len(rl)
		if len(ps) == 0 {
			return
		}
		if kk == 0 {
			for _, p := range ps {
				if p.ep != "" {
					r.Violate("picked_unready", "c14", "endpoint %s picked although no endpoint of the policy is ready", p.ep)
					return
				}
			}
			return
		}
		isReady := map[string]bool{}
		for _, e := range rl {
			isReady[e] = true
		}
		for _, p := range ps {
			if !isReady[p.ep] {
				r.Violate("picked_unready", "c14", "pick returned %q which is not a ready endpoint of the policy %v", p.ep, rl)
				return
			}
		}
		// windows delimited by quiescent points (round boundaries); with a
		// single picker thread every window.
		var cuts []int
		if nPick == 1 {
			for i := 0; i <= len(ps); i++ {
				cuts = append(cuts, i)
			}
		} else {
			cuts = append(cuts, 0)
			for i := 1; i < len(ps); i++ {
				if ps[i].round != ps[i-1].round {
					cuts = append(cuts, i)
				}
			}
			cuts = append(cuts, len(ps))
		}
		slack := 0
		if !explicit {
			slack = fact(kk)
		}
		for a := 0; a < len(cuts); a++ {
			for b := a + 1; b < len(cuts); b++ {
				w := ps[cuts[a]:cuts[b]]
				n := len(w)
				cnt := map[string]int{}
				for _, p := range w {
					cnt[p.ep]++
				}
				lo, hi := n/kk, (n+kk-1)/kk
				r.Checked("window_balanced")
				for _, e := range rl {
					c := cnt[e]
					if c < lo-slack || c > hi+slack {
						var seq []string
						for _, p := range w {
							seq = append(seq, p.ep[7:9])
						}
						kind := "explicit"
						if !explicit {
							kind = "all"
						}
						r.Violate("uneven_spread", fmt.Sprintf("%s k=%d noise=%v", kind, kk, noisePicks > 0),
							"over %d consecutive picks of the policy (ready %v) endpoint %s was chosen %d times, expected %d..%d (slack %d); picks: %s; other pickers made %d picks",
							n, rl, e, c, lo, hi, slack, strings.Join(seq, " "), noisePicks)
						return
					}
				}
			}
		}
	}

	quietN := 0
	stretch := -1
	atQuiet := func() {
		round++
		quietN++
		if remaining > 0 || noiseLeft > 0 {
			return
		}
		if growEp != "" {
			// a server is being added: wait until the update is applied and the traffic has passed
			if growLeft > 0 || warm > 0 {
				return
			}
			eps = append(eps, growEp)
			subset = append(subset, growEp)
			setReady(growEp, true)
			r.Logf("server %s added, ready", growEp)
			growEp = ""
			grown++
			stretchStart = len(picks)
			remaining = t.Range(20, 60)
			return
		}
		// stretch finished (or first call): evaluate and start the next one
		if stretch >= 0 {
			checkStretch()
			if r.Violated() {
				return
			}
		}
		stretch++
		if stretch >= nStretch {
			done = true
			return
		}
		// (also right after start-up, before the first request has been served)
		if !explicit && len(eps) < 4 && ((stretch > 0 && t.Draw(2) == 0) || (stretch == 0 && t.Draw(3) == 0)) {
			growEp = fmt.Sprintf("http://e%d:80", len(eps))
			cl = cl.DeepCopy()
			cl.Spec.Servers = append(cl.Spec.Servers, proxyv1alpha1.UpstreamClusterServer{Endpoint: growEp})
			growObj = cl
			growLeft, warm = 1, t.Range(2, 8)
			syncLeft = 0
			return
		}
		if stretch > 0 {
			// change the ready set between stretches
			e := eps[t.Draw(len(eps))]
			setReady(e, !ready[e])
			r.Logf("ready[%s]=%v", e, ready[e])
		}
		stretchStart = len(picks)
		remaining = perStretch[stretch]
		if nNoise > 0 {
			noiseLeft = t.Range(0, perStretch[stretch])
		}
		if hasSync {
			syncLeft = t.Range(1, 3)
		}
	}
	why := sc.RunRounds(30000, style, atQuiet)
	for _, th := range sc.Threads() {
		if th.Panic != nil {
			r.Violate("panic", th.PanicTop, "thread %s panicked: %v", th.Name, th.Panic)
		}
	}
	if r.Violated() {
		return
	}
	if failMsg != "" {
		r.Inconclusive(failMsg)
		return
	}
	if why != "" {
		if why == "deadlock" {
			r.Violate("deadlock", "c14", "all threads blocked: %s", sc.Describe())
		} else {
			r.Inconclusive("step budget: " + why)
		}
		return
	}
	var seq []string
	for _, p := range picks {
		if len(p.ep) >= 9 {
			seq = append(seq, p.ep[7:9])
		} else {
			seq = append(seq, "--")
		}
	}
	r.Logf("picks %s", strings.Join(seq, " "))
	r.ProbeN("picks", len(picks))
	r.ProbeN("noise_picks", noisePicks)
	r.ProbeN("yields", sc.Yields)
	r.ProbeN("resyncs_with_unchanged_servers", resyncs)
	r.ProbeN("servers_added_under_traffic", grown)
	if nPick > 1 {
		r.Probe("concurrent_pickers")
	}
	r.Nontrivial = len(picks) >= 4 && k >= 2
	r.Sample = map[string]interface{}{"endpoints": k, "explicit_subset": explicit, "subset": subset, "pickers": nPick, "noise_pickers": nNoise, "resyncs": resyncs, "picks": strings.Join(seq, " ")}
}
