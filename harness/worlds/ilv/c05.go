package ilv

import (
	"context"
	"fmt"
	"sort"
	"strings"
	"time"

	"github.com/anishathalye/porcupine"

	proxyv1alpha1 "github.com/kubewharf/kubegateway/pkg/apis/proxy/v1alpha1"
	"github.com/kubewharf/kubegateway/pkg/flowcontrols"
	"github.com/kubewharf/kubegateway/pkg/flowcontrols/flowcontrol"

	"kgsim/sim"
)

const c05MaxThreads = 6

// schema kinds of the reconfiguration alphabet
const (
	kAbsent = iota
	kMIF
	kTB
	kExempt
)

type c05Op struct {
	Kind   string // acquire | release | sync
	Thread int    // acquire/release: slot of the request thread
	SKind  int    // sync: new kind
	M      int32  // sync: new max (kMIF)
	Strat  int    // sync: limit strategy of the schema (0 none, 1 local, 2 globalAllocate, 3 globalCount)
	// StaleM (acquire, relaxed model only): the largest limit a lowering that
	// overlapped this call replaced - the limit the call may have read before it
	StaleM int32
}

var c05Strats = []proxyv1alpha1.LimitStrategy{"", proxyv1alpha1.LocalLimit, proxyv1alpha1.GlobalAllocateLimit, proxyv1alpha1.GlobalCountLimit}

func (o c05Op) String() string {
	switch o.Kind {
	case "sync":
		if o.Strat != 0 {
			return fmt.Sprintf("sync(%s,M=%d,%s)", []string{"absent", "maxinflight", "tokenbucket", "exempt"}[o.SKind], o.M, c05Strats[o.Strat])
		}
		return fmt.Sprintf("sync(%s,M=%d)", []string{"absent", "maxinflight", "tokenbucket", "exempt"}[o.SKind], o.M)
	}
	return fmt.Sprintf("%s(t%d)", o.Kind, o.Thread)
}

type c05State struct {
	kind     int
	m        int32
	epoch    int32
	inflight int32
	// epoch in which thread i's outstanding request was admitted as a
	// max-in-flight request (0 = none / not counted)
	out [c05MaxThreads]int32
}

// c05Model: sequential specification from the property text.
func c05Model(init c05State) porcupine.Model { return c05ModelOpt(init, false) }

// c05ModelOpt with relaxed=true judges an admission against the larger of the
// current limit and the limit a lowering overlapping the call replaced (known
// finding F-C05-1: the limit is read before the count is incremented).
func c05ModelOpt(init c05State, relaxed bool) porcupine.Model {
	nm := porcupine.NondeterministicModel{
		Init: func() []interface{} { return []interface{}{init} },
		Step: func(state, input, output interface{}) []interface{} {
			s := state.(c05State)
			in := input.(c05Op)
			switch in.Kind {
			case "sync":
				if in.SKind == kMIF {
					if s.kind != kMIF {
						// (re)becomes a max-in-flight schema: the count starts anew
						s.epoch++
						s.inflight = 0
					}
					s.m = in.M
				} else if s.kind == kMIF {
					s.epoch++
					s.inflight = 0
				}
				s.kind = in.SKind
				return []interface{}{s}
			case "acquire":
				if output == "panicked" {
					// answered 500 by the panic-recovery filter: not admitted, not a refusal
					return []interface{}{s}
				}
				ok := output.(bool)
				switch s.kind {
				case kMIF:
					if !ok {
						return []interface{}{s} // a refusal is never a violation of the bound
					}
					lim := s.m
					if relaxed && in.StaleM > lim {
						lim = in.StaleM
					}
					if s.inflight >= lim {
						return nil // admitted beyond M
					}
					s.inflight++
					s.out[in.Thread] = s.epoch
					return []interface{}{s}
				case kTB:
					s.out[in.Thread] = 0
					return []interface{}{s} // token bucket: C06's business
				default:
					// absent (default exempt limiter) or exempt: never refused
					if !ok {
						return nil
					}
					s.out[in.Thread] = 0
					return []interface{}{s}
				}
			case "release":
				if e := s.out[in.Thread]; e != 0 && e == s.epoch && s.kind == kMIF {
					s.inflight--
				}
				s.out[in.Thread] = 0
				return []interface{}{s}
			}
			return nil
		},
		DescribeOperation: func(input, output interface{}) string { return fmt.Sprintf("%v -> %v", input, output) },
	}
	return nm.ToModel()
}

func c05Schema(name string, kind int, m int32, strat int) (proxyv1alpha1.FlowControlSchema, bool) {
	s := proxyv1alpha1.FlowControlSchema{Name: name, Strategy: c05Strats[strat]}
	switch kind {
	case kMIF:
		s.MaxRequestsInflight = &proxyv1alpha1.MaxRequestsInflightFlowControlSchema{Max: m}
		if strat >= 2 {
			// a global strategy comes with a global limit; this limiter runs in
			// local mode, where the local limit stays the one that counts
			s.GlobalMaxRequestsInflight = &proxyv1alpha1.MaxRequestsInflightFlowControlSchema{Max: m + 5}
		}
	case kTB:
		s.TokenBucket = &proxyv1alpha1.TokenBucketFlowControlSchema{QPS: 1000, Burst: 1000}
	case kExempt:
		s.Exempt = &proxyv1alpha1.ExemptFlowControlSchema{}
	default:
		return s, false
	}
	return s, true
}

// RunC05 explores acquire/release/reconfigure interleavings of the local
// max-in-flight limiter of one cluster, with a bystander schema and cluster.
func RunC05(r *sim.Run) {
	t := r.T
	M := int32([]int{1, 1, 1, 2, 2, 2, 3, 4}[t.Draw(8)])
	nReq := t.Range(2, 5)
	style := t.Draw(2)
	rounds := t.Draw(10) < 6
	hasCfg := !strings.Contains(r.Profile, "static")

	ctx, cancel := context.WithCancel(context.Background())
	defer cancel()
	lim := flowcontrols.NewUpstreamLimiter(ctx, "c1", "", nil)
	other := flowcontrols.NewUpstreamLimiter(ctx, "c2", "", nil)
	byM := int32(t.Range(1, 3))
	curKind, curM := kMIF, M
	if hasCfg && t.Draw(3) == 0 {
		// the schema starts as another type and becomes max-in-flight later
		curKind = []int{kTB, kExempt, kAbsent}[t.Draw(3)]
	}
	initKind := curKind
	spec := func(kind int, m int32, strat int) proxyv1alpha1.FlowControl {
		var fc proxyv1alpha1.FlowControl
		if s, ok := c05Schema("s", kind, m, strat); ok {
			fc.Schemas = append(fc.Schemas, s)
		}
		b, _ := c05Schema("by", kMIF, byM, 0)
		fc.Schemas = append(fc.Schemas, b)
		return fc
	}
	lim.Sync(spec(curKind, curM, 0))
	other.Sync(spec(kMIF, 1, 0))

	type prog struct {
		name string
		ops  []c05Op
	}
	var progs []prog
	for k := 0; k < nReq; k++ {
		p := prog{name: fmt.Sprintf("req%d", k)}
		n := t.Range(1, 4)
		for j := 0; j < n; j++ {
			// requests arrive and finish at their own pace: idle steps before a
			// request and while it is being served (not part of the history)
			for i := t.Draw(3); i > 0; i-- {
				p.ops = append(p.ops, c05Op{Kind: "idle", Thread: k})
			}
			p.ops = append(p.ops, c05Op{Kind: "acquire", Thread: k})
			for i := t.Draw(4); i > 0; i-- {
				p.ops = append(p.ops, c05Op{Kind: "idle", Thread: k})
			}
			p.ops = append(p.ops, c05Op{Kind: "release", Thread: k})
		}
		progs = append(progs, p)
	}
	if hasCfg {
		p := prog{name: "cfg"}
		n := t.Range(1, 6)
		plan := curKind
		for j := 0; j < n; j++ {
			// reconfigurations arrive while traffic flows, not only before it
			for i := t.Draw(3); i > 0; i-- {
				p.ops = append(p.ops, c05Op{Kind: "idle"})
			}
			op := c05Op{Kind: "sync"}
			w := []int{5, 2, 1, 2}
			if plan != kMIF {
				w = []int{12, 1, 1, 1} // mostly: the schema is (re)created as a max-in-flight schema
			}
			switch t.Pick(w) {
			case 0:
				op.SKind, op.M = kMIF, int32([]int{0, 1, 1, 1, 2, 2, 3, 4}[t.Draw(8)])
				if t.Draw(3) == 0 {
					// the same limit under another strategy (not a type change: the count goes on)
					op.M = curM
				}
				op.Strat = t.Pick([]int{4, 1, 1, 1})
			case 1:
				op.SKind = kTB
			case 2:
				op.SKind = kExempt
			case 3:
				op.SKind = kAbsent
			}
			plan = op.SKind
			p.ops = append(p.ops, op)
		}
		progs = append(progs, p)
	}
	// bystander thread: same cluster other schema, and other cluster same schema name
	byOps := t.Range(1, 3)

	sc := sim.NewSched(r)
	sc.PCTSpan = 400
	sc.Install()
	defer sc.Uninstall()

	var stamp int64
	var hist []porcupine.Operation
	admitted, refused, typeChanges := 0, 0, 0

	// a reconfiguration is many more statements long than a request's acquire or
	// release: the configuring thread runs at a drawn multiple of their pace
	cfgWeight := []int{1, 4, 16, 48}[t.Draw(4)]
	for pi, p := range progs {
		pi, p := pi, p
		th := sc.Go(p.name, func() {
			var held flowcontrol.FlowControl
			for _, op := range p.ops {
				sc.Boundary()
				if op.Kind == "idle" {
					continue
				}
				stamp++
				call := stamp
				var out interface{}
				switch op.Kind {
				case "acquire":
					// exactly what the dispatcher does
					fc := lim.GetOrDefault("s")
					panicked := false
					ok := func() (ok bool) {
						// a panic inside the handler chain is answered 500 by the
						// gateway's panic-recovery filter: the request is not admitted
						defer func() {
							if p := recover(); p != nil {
								r.Probe("acquire_panicked_recovered_as_500")
								ok, panicked = false, true
							}
						}()
						return fc.TryAcquire()
					}()
					if ok {
						held = fc
						admitted++
					} else {
						held = nil
						refused++
					}
					out = ok
					if panicked {
						out = "panicked"
					}
				case "release":
					if held == nil {
						continue // the request was answered 429: nothing to give back
					}
					held.Release()
					held = nil
					out = true
				case "sync":
					if op.SKind != curKind {
						typeChanges++
					}
					curKind, curM = op.SKind, op.M
					lim.Sync(spec(op.SKind, op.M, op.Strat))
					out = true
				}
				stamp++
				hist = append(hist, porcupine.Operation{ClientId: pi, Input: op, Call: call, Output: out, Return: stamp})
				r.Logf("%s %v -> %v", p.name, op, out)
			}
		})
		if p.name == "cfg" {
			th.Weight = cfgWeight
			if t.Draw(2) == 0 {
				// ... and is descheduled once at an arbitrary statement
				th.StallAt, th.StallFor = 1+t.Draw(150*len(p.ops)), 20+t.Draw(120)
			}
		}
	}
	byFail := ""
	sc.Go("bystander", func() {
		for j := 0; j < byOps; j++ {
			sc.Boundary()
			// the bystander holds at most byM-? slots: acquire then release at once
			for _, l := range []flowcontrols.UpstreamLimiter{lim, other} {
				name := "by"
				if l == other {
					name = "s"
				}
				fc := l.GetOrDefault(name)
				if !fc.TryAcquire() {
					byFail = fmt.Sprintf("bystander schema %q refused although nothing of its own was in flight", name)
					return
				}
				fc.Release()
			}
		}
	})

	var why string
	if rounds {
		why = sc.RunRounds(3000, style, nil)
	} else {
		why = sc.RunAll(3000, style, nil)
	}
	for _, th := range sc.Threads() {
		if th.Panic != nil {
			r.Violate("panic", th.PanicTop, "thread %s panicked: %v", th.Name, th.Panic)
		}
	}
	if r.Violated() {
		return
	}
	if why != "" {
		if why == "deadlock" {
			r.Violate("deadlock", "c05", "all threads blocked: %s", sc.Describe())
		} else {
			r.Inconclusive("step budget: " + why)
		}
		return
	}
	r.Checked("bystander_not_refused")
	if byFail != "" {
		r.Violate("bystander_refused", "c05", "%s", byFail)
		return
	}
	// final: everything released; exactly M admissions must be possible again
	if curKind == kMIF {
		r.Checked("slots_after_drain")
		fc := lim.GetOrDefault("s")
		got := int32(0)
		for i := int32(0); i < curM+1; i++ {
			stamp++
			call := stamp
			ok := fc.TryAcquire()
			stamp++
			hist = append(hist, porcupine.Operation{ClientId: len(progs) + 1, Input: c05Op{Kind: "acquire", Thread: c05MaxThreads - 1}, Call: call, Output: ok, Return: stamp})
			if ok {
				got++
				// do not release: fill up
				// model slot reuse: record a release-less hold by moving on
			}
		}
		if got != curM {
			r.Violate("slots_after_drain", fmt.Sprintf("got%+d", got-curM), "after all requests finished %d of %d slots could be taken (limit %d): %s", got, curM+1, curM, histString(hist))
			return
		}
	}
	r.Checked("linearizable")
	init := c05State{kind: initKind, m: M, epoch: 1}
	res := porcupine.CheckOperationsTimeout(c05Model(init), hist, 20*time.Second)
	switch res {
	case porcupine.Illegal:
		// Is it explained by admissions that were judged against a limit read before a
		// lowering that overlapped the call (F-C05-1)? Every admitted acquire gets the
		// largest limit replaced by a lowering it overlapped; the relaxed model may use it.
		var syncs []porcupine.Operation
		for _, h := range hist {
			if h.Input.(c05Op).Kind == "sync" {
				syncs = append(syncs, h)
			}
		}
		sort.Slice(syncs, func(i, j int) bool { return syncs[i].Call < syncs[j].Call })
		prevKind, prevM := initKind, M
		relaxedHist := append([]porcupine.Operation(nil), hist...)
		stale := 0
		for _, sy := range syncs {
			so := sy.Input.(c05Op)
			if prevKind == kMIF && so.SKind == kMIF && so.M < prevM {
				for i, h := range relaxedHist {
					op := h.Input.(c05Op)
					if op.Kind == "acquire" && h.Output == true && h.Call < sy.Return && h.Return > sy.Call && op.StaleM < prevM {
						op.StaleM = prevM
						relaxedHist[i].Input = op
						stale++
					}
				}
			}
			prevKind = so.SKind
			if so.SKind == kMIF {
				prevM = so.M
			}
		}
		if stale > 0 && porcupine.CheckOperationsTimeout(c05ModelOpt(init, true), relaxedHist, 20*time.Second) == porcupine.Ok {
			r.Finding("admitted_on_a_limit_read_before_its_lowering", "acquire-overlapping-resize", "an acquire whose call overlapped a lowering of the limit was admitted against the limit it had read before (the count is incremented and compared after the limit was read): %s", histString(hist))
			break
		}
		r.Violate("bound_exceeded", c05Sig(hist), "history is not explained by the sequential max-in-flight model (a request was admitted beyond M, or the default/exempt limiter refused): %s", histString(hist))
	case porcupine.Unknown:
		r.Inconclusive("porcupine timeout")
	}
	ov := overlaps(hist)
	// reach: a request that was admitted while its schema was being created as a
	// max-in-flight schema, and that finished while a later admission was in flight
	{
		prev := initKind
		type span struct{ a, b int64 }
		var creations []span
		var syncs []porcupine.Operation
		for _, h := range hist {
			if h.Input.(c05Op).Kind == "sync" {
				syncs = append(syncs, h)
			}
		}
		sort.Slice(syncs, func(i, j int) bool { return syncs[i].Call < syncs[j].Call })
		for _, h := range syncs {
			k := h.Input.(c05Op).SKind
			if k == kMIF && prev != kMIF {
				creations = append(creations, span{h.Call, h.Return})
			}
			prev = k
		}
		relOf := map[int]int64{} // index of an admitted acquire -> call stamp of its release
		for i, h := range hist {
			if op := h.Input.(c05Op); op.Kind == "acquire" && h.Output == true {
				for _, g := range hist {
					if o2 := g.Input.(c05Op); o2.Kind == "release" && o2.Thread == op.Thread && g.Call > h.Return {
						if cur, ok := relOf[i]; !ok || g.Call < cur {
							relOf[i] = g.Call
						}
					}
				}
			}
		}
		during, chain := 0, 0
		for i, h := range hist {
			if _, ok := relOf[i]; !ok {
				continue
			}
			for _, c := range creations {
				if h.Call < c.b && h.Return > c.a {
					during++
					for j, g := range hist {
						if rj, ok := relOf[j]; ok && j != i && g.Call > c.b && g.Return < relOf[i] && rj > relOf[i] {
							chain++
						}
					}
				}
			}
		}
		r.ProbeN("admitted_while_the_schema_was_being_created", during)
		r.ProbeN("such_a_request_released_while_a_later_admission_was_in_flight", chain)
	}
	r.ProbeN("overlapping_pairs", ov)
	r.ProbeN("admitted", admitted)
	r.ProbeN("refused", refused)
	r.ProbeN("type_changes", typeChanges)
	r.ProbeN("yields", sc.Yields)
	r.Nontrivial = ov > 0 && refused > 0
	var sample []string
	for _, p := range progs {
		var ops []string
		for _, o := range p.ops {
			ops = append(ops, o.String())
		}
		sample = append(sample, p.name+": "+strings.Join(ops, "; "))
	}
	r.Sample = map[string]interface{}{"M": M, "threads": sample, "style": style, "rounds": rounds, "history": histString(hist)}
}

func c05Sig(hist []porcupine.Operation) string {
	typ := false
	for _, h := range hist {
		if op, ok := h.Input.(c05Op); ok && op.Kind == "sync" && op.SKind != kMIF {
			typ = true
		}
	}
	if typ {
		return "with-type-change"
	}
	return "resize-only"
}
