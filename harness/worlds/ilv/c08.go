// Package ilv holds the bubble-free worlds that explore statement-level
// interleavings of lock/atomic code under the cooperative scheduler.
package ilv

import (
	"fmt"
	"regexp"
	"strconv"
	"strings"
	"time"

	"github.com/anishathalye/porcupine"

	proxyv1alpha1 "github.com/kubewharf/kubegateway/pkg/apis/proxy/v1alpha1"
	srvfc "github.com/kubewharf/kubegateway/pkg/ratelimiter/store/flowcontrol"
	"github.com/kubewharf/kubegateway/pkg/ratelimiter/store/local"

	"kgsim/sim"
)

const c08MaxInst = 4

type c08Op struct {
	Kind string // set | remove | resize | read
	Inst int
	ID   int64
	N    int32
}

func (o c08Op) String() string {
	switch o.Kind {
	case "set":
		return fmt.Sprintf("set(i%d,id=%d,n=%d)", o.Inst, o.ID, o.N)
	case "remove":
		return fmt.Sprintf("remove(i%d)", o.Inst)
	case "resize":
		return fmt.Sprintf("resize(%d)", o.N)
	}
	return o.Kind
}

type c08Out struct {
	Accept bool
	Thr    int32
	TooOld bool
	Err    string
	Snap   [c08MaxInst]int32
	Count  int32
	Max    int32
}

type c08State struct {
	max  int32
	cnt  [c08MaxInst]int32
	last [c08MaxInst]int64
}

func (s c08State) total() int32 {
	var t int32
	for _, c := range s.cnt {
		t += c
	}
	return t
}

// c08Model is the sequential specification written from the property text.
func c08Model(initMax int32) porcupine.Model {
	nm := porcupine.NondeterministicModel{
		Init: func() []interface{} { return []interface{}{c08State{max: initMax}} },
		Step: func(state, input, output interface{}) []interface{} {
			s := state.(c08State)
			in := input.(c08Op)
			out := output.(c08Out)
			switch in.Kind {
			case "resize":
				s.max = in.N
				return []interface{}{s}
			case "remove":
				// the server forgets the instance; whether it also forgets the
				// last request id is not stated: both are accepted.
				s.cnt[in.Inst] = 0
				a := s
				b := s
				b.last[in.Inst] = 0
				if a == b {
					return []interface{}{a}
				}
				return []interface{}{a, b}
			case "read":
				for i := 0; i < c08MaxInst; i++ {
					if out.Snap[i] != s.cnt[i] {
						return nil
					}
				}
				if out.Count != s.total() {
					return nil
				}
				return []interface{}{s}
			case "set":
				i := in.Inst
				if in.ID > 0 && in.ID <= s.last[i] {
					if !out.TooOld {
						return nil // a stale report was processed
					}
					return []interface{}{s}
				}
				if out.TooOld || out.Err != "" {
					return nil // a fresh report was refused as stale / failed
				}
				if in.ID > 0 {
					s.last[i] = in.ID
				}
				cur := s.cnt[i]
				if in.N <= cur {
					s.cnt[i] = in.N // lowering (or repeating) is always applied
					return []interface{}{s}
				}
				var res []interface{}
				fits := s.total()-cur+in.N <= s.max
				if !out.Accept {
					res = append(res, s) // refused: nothing changes
				}
				if fits {
					a := s
					a.cnt[i] = in.N
					res = append(res, a)
				}
				return res
			}
			return nil
		},
		DescribeOperation: func(input, output interface{}) string {
			return fmt.Sprintf("%v -> %+v", input, output)
		},
	}
	return nm.ToModel()
}

var c08Re = regexp.MustCompile(`max=(-?\d+) count=(-?\d+) total=(-?\d+) details=(.*)$`)
var c08Det = regexp.MustCompile(`\[i(\d+): (-?\d+)\]`)

func c08Parse(info string) (out c08Out, total int32, ok bool) {
	m := c08Re.FindStringSubmatch(info)
	if m == nil {
		return out, 0, false
	}
	mx, _ := strconv.Atoi(m[1])
	c, _ := strconv.Atoi(m[2])
	t, _ := strconv.Atoi(m[3])
	out.Max = int32(mx)
	out.Count = int32(c)
	for _, d := range c08Det.FindAllStringSubmatch(m[4], -1) {
		i, _ := strconv.Atoi(d[1])
		v, _ := strconv.Atoi(d[2])
		if i >= 0 && i < c08MaxInst {
			out.Snap[i] = int32(v)
		}
	}
	return out, int32(t), true
}

// RunC08 is one run of the C08 interleaving world.
func RunC08(r *sim.Run) {
	t := r.T
	withResize := strings.Contains(r.Profile, "resize") && !strings.Contains(r.Profile, "noresize")
	M := int32(t.Range(1, 6))
	nInst := t.Range(1, 3)
	nRep := t.Range(2, 4)
	nRem := t.Draw(3)
	style := t.Draw(2)
	rounds := t.Draw(10) < 7

	store := local.NewLocalStore()
	mk := func(max int32) proxyv1alpha1.FlowControl {
		return proxyv1alpha1.FlowControl{Schemas: []proxyv1alpha1.FlowControlSchema{{
			Name:     "s",
			Strategy: proxyv1alpha1.GlobalCountLimit,
			FlowControlSchemaConfiguration: proxyv1alpha1.FlowControlSchemaConfiguration{
				MaxRequestsInflight:       &proxyv1alpha1.MaxRequestsInflightFlowControlSchema{Max: 1},
				GlobalMaxRequestsInflight: &proxyv1alpha1.MaxRequestsInflightFlowControlSchema{Max: max},
			},
		}}}
	}
	store.SyncFlowControl("u", mk(M))
	fc, err := store.GetFlowControl("u", "s")
	if err != nil {
		r.Inconclusive("setup: " + err.Error())
		return
	}

	// programs
	type prog struct {
		name string
		ops  []c08Op
	}
	var progs []prog
	nextID := make([]int64, c08MaxInst)
	for k := 0; k < nRep; k++ {
		inst := t.Draw(nInst)
		nops := t.Range(1, 4)
		p := prog{name: fmt.Sprintf("rep%d", k)}
		for j := 0; j < nops; j++ {
			op := c08Op{Kind: "set", Inst: inst, N: int32(t.Draw(int(M) + 3))}
			switch t.Pick([]int{5, 2, 2}) {
			case 0:
				nextID[inst]++
				op.ID = nextID[inst]
			case 1:
				op.ID = 0
			case 2:
				if nextID[inst] > 0 {
					op.ID = 1 + int64(t.Draw(int(nextID[inst])))
				} else {
					nextID[inst]++
					op.ID = nextID[inst]
				}
			}
			p.ops = append(p.ops, op)
		}
		progs = append(progs, p)
	}
	for k := 0; k < nRem; k++ {
		p := prog{name: fmt.Sprintf("rem%d", k)}
		nops := t.Range(1, 2)
		for j := 0; j < nops; j++ {
			p.ops = append(p.ops, c08Op{Kind: "remove", Inst: t.Draw(nInst)})
		}
		progs = append(progs, p)
	}
	if withResize {
		p := prog{name: "resize"}
		nops := t.Range(1, 2)
		for j := 0; j < nops; j++ {
			p.ops = append(p.ops, c08Op{Kind: "resize", N: int32(t.Range(1, int(M)+3))})
		}
		progs = append(progs, p)
	}

	sc := sim.NewSched(r)
	sc.Install()
	defer sc.Uninstall()

	var stamp int64
	var hist []porcupine.Operation
	maxSeen := M // largest limit in effect since the previous quiet point
	var prevTotal int32
	stale, rollbacks, removals := 0, 0, 0

	for pi, p := range progs {
		pi, p := pi, p
		sc.Go(p.name, func() {
			for _, op := range p.ops {
				sc.Boundary()
				stamp++
				call := stamp
				var out c08Out
				switch op.Kind {
				case "set":
					acc, thr, err := fc.SetState(fmt.Sprintf("i%d", op.Inst), op.ID, op.N)
					out.Accept, out.Thr = acc, thr
					if err != nil {
						if err == srvfc.RequestIDTooOld {
							out.TooOld = true
							stale++
						} else {
							out.Err = err.Error()
						}
					} else if !acc && thr != op.N {
						rollbacks++
					}
				case "remove":
					store.DeleteInstanceState(fmt.Sprintf("i%d", op.Inst))
					removals++
				case "resize":
					store.SyncFlowControl("u", mk(op.N))
					if op.N > maxSeen {
						maxSeen = op.N
					}
				}
				stamp++
				hist = append(hist, porcupine.Operation{ClientId: pi, Input: op, Call: call, Output: out, Return: stamp})
				r.Logf("%s %v -> acc=%v thr=%d old=%v", p.name, op, out.Accept, out.Thr, out.TooOld)
			}
		})
	}

	quiet := func() {
		info := fc.DebugInfo()
		out, total, ok := c08Parse(info)
		if !ok {
			r.Inconclusive("cannot parse DebugInfo: " + info)
			return
		}
		r.Checked("total_equals_sum")
		if out.Count != total {
			r.Violate("total_mismatch", c08Sig(hist), "running total %d != sum of per-instance counts %d (%s)", out.Count, total, info)
			return
		}
		r.Checked("sum_within_limit")
		bound := maxSeen
		if prevTotal > bound {
			bound = prevTotal
		}
		if total > bound {
			r.Violate("limit_exceeded", c08Sig(hist), "recorded sum %d exceeds the limit %d (largest limit in effect since the last quiet point; previous sum %d) (%s)", total, bound, prevTotal, info)
			return
		}
		prevTotal = total
		maxSeen = out.Max
		stamp++
		call := stamp
		stamp++
		hist = append(hist, porcupine.Operation{ClientId: len(progs), Input: c08Op{Kind: "read"}, Call: call, Output: out, Return: stamp})
		r.Logf("quiet %s", canonInfo(out))
	}

	var why string
	if rounds {
		why = runRounds(sc, r, 900, style, quiet)
	} else {
		why = sc.RunAll(900, style, quiet)
	}
	for _, th := range scThreads(sc) {
		if th.Panic != nil {
			r.Violate("panic", th.PanicTop, "thread %s panicked: %v", th.Name, th.Panic)
		}
	}
	if r.Violated() {
		return
	}
	if why != "" {
		if why == "deadlock" {
			r.Violate("deadlock", sc.Describe(), "all threads blocked: %s", sc.Describe())
		} else {
			r.Inconclusive("step budget exhausted")
		}
		return
	}
	quiet()
	if r.Violated() {
		return
	}
	// linearizability of the recorded history against the sequential model
	r.Checked("linearizable")
	res := porcupine.CheckOperationsTimeout(c08Model(M), hist, 20*time.Second)
	switch res {
	case porcupine.Illegal:
		r.Violate("nonlinearizable", c08Sig(hist), "history of %d operations is not linearizable w.r.t. the sequential counter model: %s", len(hist), histString(hist))
	case porcupine.Unknown:
		r.Inconclusive("porcupine timeout")
	}
	overl := overlaps(hist)
	r.ProbeN("overlapping_pairs", overl)
	r.ProbeN("stale_id_refused", stale)
	r.ProbeN("rolled_back", rollbacks)
	r.ProbeN("removals", removals)
	r.ProbeN("yields", sc.Yields)
	r.Nontrivial = overl > 0 && (stale+rollbacks+removals > 0)
	var sample []string
	for _, p := range progs {
		var ops []string
		for _, o := range p.ops {
			ops = append(ops, o.String())
		}
		sample = append(sample, p.name+": "+strings.Join(ops, "; "))
	}
	r.Sample = map[string]interface{}{"max": M, "threads": sample, "style": style, "rounds": rounds, "history": histString(hist)}
}

func canonInfo(o c08Out) string {
	return fmt.Sprintf("max=%d count=%d snap=%v", o.Max, o.Count, o.Snap)
}

// c08Sig names the shape of the history for known-finding matching: which
// kinds of operations overlapped.
func c08Sig(hist []porcupine.Operation) string {
	kinds := map[string]bool{}
	for i := range hist {
		for j := i + 1; j < len(hist); j++ {
			a, b := hist[i], hist[j]
			if a.Call < b.Return && b.Call < a.Return {
				ka, kb := a.Input.(c08Op).Kind, b.Input.(c08Op).Kind
				if ka > kb {
					ka, kb = kb, ka
				}
				kinds[ka+"||"+kb] = true
			}
		}
	}
	hasResize := false
	for _, h := range hist {
		if h.Input.(c08Op).Kind == "resize" {
			hasResize = true
		}
	}
	s := strings.Join(sim.SortedKeys(kinds), ",")
	if hasResize {
		s += "+resize"
	}
	if s == "" {
		s = "sequential"
	}
	return s
}

func overlaps(hist []porcupine.Operation) int {
	n := 0
	for i := range hist {
		for j := i + 1; j < len(hist); j++ {
			a, b := hist[i], hist[j]
			if a.Call < b.Return && b.Call < a.Return {
				n++
			}
		}
	}
	return n
}

func histString(hist []porcupine.Operation) string {
	var b strings.Builder
	for _, h := range hist {
		fmt.Fprintf(&b, "[c%d %d-%d %v -> %v] ", h.ClientId, h.Call, h.Return, h.Input, h.Output)
	}
	return b.String()
}

func runRounds(sc *sim.Sched, r *sim.Run, max, style int, q func()) string {
	return sc.RunRounds(max, style, q)
}

func scThreads(sc *sim.Sched) []*sim.Thread { return sc.Threads() }
