package ilv

import (
	"context"
	"fmt"
	"net"
	"strings"

	metav1 "k8s.io/apimachinery/pkg/apis/meta/v1"

	proxyv1alpha1 "github.com/kubewharf/kubegateway/pkg/apis/proxy/v1alpha1"
	gatewayinformers "github.com/kubewharf/kubegateway/pkg/client/informers"
	gatewayfake "github.com/kubewharf/kubegateway/pkg/client/kubernetes/fake"
	"github.com/kubewharf/kubegateway/pkg/clusters"
	"github.com/kubewharf/kubegateway/pkg/gateway/controllers"
	proxyoptions "github.com/kubewharf/kubegateway/pkg/gateway/proxy/options"

	"kgsim/sim"
)

// RunC10I: host names are looked up (what request routing, SNI certificate
// selection and client-certificate verification do) while the controller applies
// updates that change the clusters' server-name lists, under a drawn
// statement-level schedule. Every cluster draws its aliases from a pool of its
// own, so no conflicts arise (those are the gw world's business).
//
// Oracle. For a look-up of name h, owned by cluster c: the versions of c in force
// at that moment are the last one whose application had returned up to the last
// one whose application had begun. If every one of them claims h (c's own name is
// claimed by all), h resolves to c; if none of them does, h does not resolve; and
// h never resolves to another cluster.
func RunC10I(r *sim.Run) {
	t := r.T
	clusters.VerifDial = func(ctx context.Context, network, addr string) (net.Conn, error) {
		return nil, fmt.Errorf("kgsim: no network in this world")
	}
	defer func() { clusters.VerifDial = nil }()
	fake := gatewayfake.NewSimpleClientset()
	inf := gatewayinformers.NewSharedInformerFactory(fake, 0).Proxy().V1alpha1().UpstreamClusters()
	ctl := controllers.NewUpstreamClusterController(inf, &proxyoptions.RateLimiterOptions{RateLimiter: "local"})
	indexer := inf.Informer().GetIndexer()

	nCl := t.Range(1, 3)
	names := []string{"alpha", "beta", "gamma"}[:nCl]
	pool := func(c string) []string {
		return []string{c[:1] + "1.example.com", c[:1] + "2.example.com", c[:1] + "3.example.com"}
	}
	owner := map[string]string{}
	for _, c := range names {
		owner[c] = c
		for _, a := range pool(c) {
			owner[a] = c
		}
	}
	drawAliases := func(c string) []string {
		var out []string
		for _, a := range pool(c) {
			if t.Draw(2) == 0 {
				out = append(out, a)
			}
		}
		// order matters to DeepEqual in the controller: sometimes reversed
		if len(out) > 1 && t.Draw(3) == 0 {
			out[0], out[len(out)-1] = out[len(out)-1], out[0]
		}
		return out
	}
	obj := func(c string, aliases []string, ver int) *proxyv1alpha1.UpstreamCluster {
		cl := &proxyv1alpha1.UpstreamCluster{ObjectMeta: metav1.ObjectMeta{Name: c, ResourceVersion: fmt.Sprint(ver), Generation: int64(ver)}}
		cl.Spec.Servers = []proxyv1alpha1.UpstreamClusterServer{{Endpoint: "http://127.0.0.1:9"}}
		cl.Spec.ClientConfig.BearerToken = []byte("cred-" + c)
		cl.Spec.DispatchPolicies = []proxyv1alpha1.DispatchPolicy{{Rules: []proxyv1alpha1.DispatchPolicyRule{{Verbs: []string{"*"}, APIGroups: []string{"*"}, Resources: []string{"*"}}}}}
		cl.Spec.SecureServing.ServerNames = append([]string(nil), aliases...)
		return cl
	}
	claims := func(c string, aliases []string) map[string]bool {
		m := map[string]bool{c: true}
		for _, a := range aliases {
			m[strings.ToLower(a)] = true
		}
		return m
	}
	// versions[c][v] = names claimed by version v of cluster c
	versions := map[string][]map[string]bool{}
	type span struct{ call, ret int64 }
	applied := map[string][]span{}
	var stamp int64
	for _, c := range names {
		al := drawAliases(c)
		o := obj(c, al, 1)
		_ = indexer.Add(o)
		if err := controllers.KgsimSync(ctl, o); err != nil {
			r.Inconclusive("bootstrap: " + err.Error())
			return
		}
		versions[c] = []map[string]bool{claims(c, al)}
		applied[c] = []span{{0, 0}}
	}
	defer func() {
		for _, c := range names {
			if info, ok := ctl.Get(c); ok {
				info.Stop()
			}
		}
	}()
	// the updates, in the order the single sync worker will apply them
	type upd struct {
		c   string
		obj *proxyv1alpha1.UpstreamCluster
		v   int
	}
	var updates []upd
	for i := t.Range(1, 6); i > 0; i-- {
		c := names[t.Draw(len(names))]
		al := drawAliases(c)
		v := len(versions[c])
		versions[c] = append(versions[c], claims(c, al))
		updates = append(updates, upd{c, obj(c, al, v+1), v})
	}

	sc := sim.NewSched(r)
	sc.Install()
	defer sc.Uninstall()
	failMsg := ""
	cfg := sc.Go("sync", func() {
		for _, u := range updates {
			for i := t.Draw(3); i > 0; i-- {
				sc.Boundary()
			}
			sc.Boundary()
			stamp++
			applied[u.c] = append(applied[u.c], span{call: stamp})
			_ = indexer.Update(u.obj)
			if err := controllers.KgsimSync(ctl, u.obj); err != nil {
				failMsg = "sync: " + err.Error()
				return
			}
			stamp++
			applied[u.c][u.v].ret = stamp
			r.Logf("applied %s v%d names=%v", u.c, u.v+1, u.obj.Spec.SecureServing.ServerNames)
		}
	})
	cfg.Weight = []int{1, 4, 16}[t.Draw(3)]
	if t.Draw(2) == 0 {
		cfg.StallAt, cfg.StallFor = 1+t.Draw(40*len(updates)), 5+t.Draw(40)
	}
	type lookup struct {
		host, got string
		ok        bool
		at        int64
	}
	var lookups []*lookup
	var hosts []string
	for h := range owner {
		hosts = append(hosts, h)
	}
	sortStrings(hosts)
	for ti := t.Range(1, 3); ti > 0; ti-- {
		n := t.Range(3, 12)
		sc.Go(fmt.Sprintf("lookup%d", ti), func() {
			for j := 0; j < n; j++ {
				sc.Boundary()
				h := hosts[t.Draw(len(hosts))]
				info, ok := ctl.Get(h)
				stamp++
				l := &lookup{host: h, ok: ok, at: stamp}
				if ok && info != nil {
					l.got = info.Cluster
				}
				lookups = append(lookups, l)
			}
		})
	}
	style := t.Draw(2)
	var why string
	if t.Draw(2) == 0 {
		why = sc.RunRounds(8000, style, nil)
	} else {
		why = sc.RunAll(8000, style, nil)
	}
	for _, th := range sc.Threads() {
		if th.Panic != nil {
			r.Violate("panic", th.PanicTop, "thread %s panicked: %v", th.Name, th.Panic)
		}
	}
	if r.Violated() {
		return
	}
	if failMsg != "" {
		r.Inconclusive(failMsg)
		return
	}
	if why != "" {
		if why == "deadlock" {
			r.Violate("deadlock", "c10i", "all threads blocked: %s", sc.Describe())
		} else {
			r.Inconclusive("step budget: " + why)
		}
		return
	}
	during := 0
	for _, l := range lookups {
		c := owner[l.host]
		lo, hi := 0, 0
		for v := 1; v < len(applied[c]); v++ {
			if applied[c][v].ret != 0 && applied[c][v].ret < l.at {
				lo = v
			}
			if applied[c][v].call < l.at {
				hi = v
			}
		}
		if hi > lo {
			during++
		}
		all, none := true, true
		for v := lo; v <= hi; v++ {
			if versions[c][v][l.host] {
				none = false
			} else {
				all = false
			}
		}
		r.Checked("lookup_explained_by_versions_in_force")
		var inForce []string
		for v := lo; v <= hi; v++ {
			var ns []string
			for n := range versions[c][v] {
				ns = append(ns, n)
			}
			sortStrings(ns)
			inForce = append(inForce, fmt.Sprintf("v%d %v", v+1, ns))
		}
		switch {
		case l.ok && l.got != c:
			r.Violate("name_captured", "other-cluster", "host %q resolved to cluster %q; only cluster %q ever claims it", l.host, l.got, c)
			return
		case all && !l.ok:
			r.Violate("name_lost_or_captured", "during-update", "host %q did not resolve although every version of cluster %q in force at that moment claims it: %s", l.host, c, strings.Join(inForce, " ;; "))
			return
		case none && l.ok:
			r.Violate("name_still_resolves", "c10i", "host %q resolved to %q although no version of that cluster in force at that moment claims it: %s", l.host, l.got, strings.Join(inForce, " ;; "))
			return
		}
	}
	r.ProbeN("lookups", len(lookups))
	r.ProbeN("lookups_while_their_cluster_was_updated", during)
	r.ProbeN("updates", len(updates))
	r.ProbeN("yields", sc.Yields)
	r.Nontrivial = during > 0
	r.Sample = map[string]interface{}{"clusters": nCl, "updates": len(updates), "lookups": len(lookups), "during_update": during}
}
