package ilv

import (
	"fmt"
	"strings"

	metav1 "k8s.io/apimachinery/pkg/apis/meta/v1"
	"k8s.io/apiserver/pkg/authentication/user"
	"k8s.io/apiserver/pkg/authorization/authorizer"

	proxyv1alpha1 "github.com/kubewharf/kubegateway/pkg/apis/proxy/v1alpha1"
	"github.com/kubewharf/kubegateway/pkg/clusters"

	"kgsim/sim"
)

// c01List is one version of the policy list: policy i carries the verbs it
// matches and a schema name that identifies (version, position).
type c01List struct {
	verbs [][]string
	tags  []string
}

func (l *c01List) firstMatch(verb string) string {
	for i, vs := range l.verbs {
		for _, v := range vs {
			if v == verb || v == "*" {
				return l.tags[i]
			}
		}
	}
	return "" // no policy matches: rejected
}

func (l *c01List) policies() []proxyv1alpha1.DispatchPolicy {
	var out []proxyv1alpha1.DispatchPolicy
	for i, vs := range l.verbs {
		out = append(out, proxyv1alpha1.DispatchPolicy{
			FlowControlSchemaName: l.tags[i],
			Rules:                 []proxyv1alpha1.DispatchPolicyRule{{Verbs: append([]string(nil), vs...), APIGroups: []string{"*"}, Resources: []string{"*"}}},
		})
	}
	return out
}

// RunC01I: requests are matched while the controller replaces the policy list
// (statement-level interleaving of MatchAttributes with Sync). Every request is
// handled under the first matching policy of a list that was current at some
// moment of the call - never under a policy that is the first match in no such
// list - and no interleaving makes the matcher fail.
func RunC01I(r *sim.Run) {
	t := r.T
	verbPool := []string{"get", "list", "watch", "create", "delete"}
	drawList := func(version int) *c01List {
		l := &c01List{}
		n := t.Range(0, 4)
		for i := 0; i < n; i++ {
			var vs []string
			if t.Draw(8) == 0 {
				vs = []string{"*"}
			} else {
				for k := t.Range(1, 2); k > 0; k-- {
					vs = append(vs, verbPool[t.Draw(len(verbPool))])
				}
			}
			l.verbs = append(l.verbs, vs)
			l.tags = append(l.tags, fmt.Sprintf("v%d-p%d", version, i))
		}
		return l
	}
	nVersions := t.Range(2, 4)
	var lists []*c01List
	for v := 0; v < nVersions; v++ {
		if v > 0 && t.Draw(2) == 0 {
			// a neighbour of the previous version: a policy inserted at, removed from or moved to the front
			prev := lists[v-1]
			l := &c01List{verbs: append([][]string(nil), prev.verbs...)}
			switch t.Draw(3) {
			case 0:
				l.verbs = append([][]string{{verbPool[t.Draw(len(verbPool))]}}, l.verbs...)
			case 1:
				if len(l.verbs) > 0 {
					l.verbs = l.verbs[1:]
				}
			case 2:
				if len(l.verbs) > 1 {
					last := l.verbs[len(l.verbs)-1]
					l.verbs = append([][]string{last}, l.verbs[:len(l.verbs)-1]...)
				}
			}
			for i := range l.verbs {
				l.tags = append(l.tags, fmt.Sprintf("v%d-p%d", v, i))
			}
			lists = append(lists, l)
			continue
		}
		lists = append(lists, drawList(v))
	}
	obj := func(v int) *proxyv1alpha1.UpstreamCluster {
		cl := &proxyv1alpha1.UpstreamCluster{ObjectMeta: metav1.ObjectMeta{Name: "c01"}}
		cl.Spec.Servers = []proxyv1alpha1.UpstreamClusterServer{{Endpoint: "http://e0:80"}}
		cl.Spec.DispatchPolicies = lists[v].policies()
		return cl
	}
	noHealth := func(e *clusters.EndpointInfo) bool { return false }
	info, err := clusters.CreateClusterInfo(obj(0), noHealth, "", nil)
	if err != nil {
		r.Inconclusive("setup: " + err.Error())
		return
	}
	defer info.Stop()

	sc := sim.NewSched(r)
	sc.Install()
	defer sc.Uninstall()

	// version history: cur is the version whose Sync completed last; during a Sync both are possible
	type span struct{ from, to int64 } // stamps
	var stamp int64
	type syncOp struct {
		v          int
		call, done int64
	}
	syncs := []syncOp{{0, 0, 0}}
	type matchRes struct {
		thread     int
		verb       string
		got        string
		errText    string
		call, done int64
	}
	var results []matchRes
	nSync := t.Range(1, 4)
	plan := make([]int, nSync)
	for i := range plan {
		plan[i] = t.Draw(nVersions)
	}
	sc.Go("sync", func() {
		for _, v := range plan {
			sc.Boundary()
			stamp++
			op := syncOp{v: v, call: stamp}
			if err := info.Sync(obj(v)); err != nil {
				r.Logf("sync v%d: %v", v, err)
			}
			stamp++
			op.done = stamp
			syncs = append(syncs, op)
			r.Logf("sync v%d [%d-%d]", v, op.call, op.done)
		}
	})
	nThreads := t.Range(1, 3)
	for ti := 0; ti < nThreads; ti++ {
		ti := ti
		n := t.Range(1, 4)
		verbs := make([]string, n)
		for i := range verbs {
			verbs[i] = verbPool[t.Draw(len(verbPool))]
		}
		sc.Go(fmt.Sprintf("req%d", ti), func() {
			for _, verb := range verbs {
				sc.Boundary()
				stamp++
				m := matchRes{thread: ti, verb: verb, call: stamp}
				attrs := authorizer.AttributesRecord{User: &user.DefaultInfo{Name: "alice", Groups: []string{"system:authenticated"}},
					Verb: verb, APIVersion: "v1", Resource: "pods", Namespace: "default", ResourceRequest: true, Path: "/api/v1/namespaces/default/pods"}
				picker, err := info.MatchAttributes(attrs)
				if err != nil {
					m.errText = err.Error()
				} else {
					m.got = picker.FlowControlName()
				}
				stamp++
				m.done = stamp
				results = append(results, m)
				r.Logf("req%d %s [%d-%d] -> %q %s", ti, verb, m.call, m.done, m.got, m.errText)
			}
		})
	}
	style := t.Draw(2)
	why := sc.RunAll(3000, style, nil)
	for _, th := range sc.Threads() {
		if th.Panic != nil {
			r.Violate("panic", th.PanicTop, "thread %s panicked while the policy list was being replaced: %v", th.Name, th.Panic)
			return
		}
	}
	if why != "" {
		if why == "deadlock" {
			r.Violate("deadlock", "c01i", "all threads blocked: %s", sc.Describe())
		} else {
			r.Inconclusive("step budget: " + why)
		}
		return
	}
	overl := 0
	for _, m := range results {
		// versions current at some moment of [m.call, m.done]: the one whose Sync completed
		// last before m.call, and every one whose Sync overlapped the call or completed within it
		allowedV := map[int]bool{}
		last := 0
		for _, s := range syncs {
			if s.done <= m.call {
				last = s.v
			}
		}
		allowedV[last] = true
		for _, s := range syncs[1:] {
			if s.call <= m.done && s.done >= m.call {
				allowedV[s.v] = true
				overl++
			}
		}
		allowed := map[string]bool{}
		var desc []string
		for v := range allowedV {
			tag := lists[v].firstMatch(m.verb)
			if tag == "" {
				tag = "system-default/none"
			}
			allowed[tag] = true
		}
		for k := range allowed {
			desc = append(desc, k)
		}
		r.Checked("handled_under_first_match_of_a_current_list")
		got := m.got
		if m.errText != "" {
			got = "system-default/none"
		}
		if !allowed[got] {
			var ls []string
			for v := range allowedV {
				ls = append(ls, fmt.Sprintf("v%d=%v", v, lists[v].verbs))
			}
			r.Violate("handled_under_policy_of_no_current_list", "c01i", "a %s request matched while the list was being replaced was handled under %q; the lists current during the call (%s) give %v", m.verb, got, strings.Join(ls, " "), desc)
			return
		}
	}
	r.ProbeN("match_calls", len(results))
	r.ProbeN("match_calls_overlapping_a_sync", overl)
	r.ProbeN("yields", sc.Yields)
	r.Nontrivial = overl > 0
	r.Sample = map[string]interface{}{"versions": nVersions, "syncs": nSync, "threads": nThreads, "overlapping": overl}
}
