package rl

import (
	"context"
	"fmt"
	"os"
	"strings"
	"time"

	apierrors "k8s.io/apimachinery/pkg/api/errors"
	metav1 "k8s.io/apimachinery/pkg/apis/meta/v1"

	proxyv1alpha1 "github.com/kubewharf/kubegateway/pkg/apis/proxy/v1alpha1"
	rlutil "github.com/kubewharf/kubegateway/pkg/ratelimiter/util"

	"kgsim/sim"
	"kgsim/simapi"
	"kgsim/simnet"
)

func mifQuota(c *proxyv1alpha1.RateLimitCondition, schema string) (int32, bool) {
	for _, it := range c.Spec.LimitItemConfigurations {
		if it.Name == schema && it.MaxRequestsInflight != nil {
			return it.MaxRequestsInflight.Max, true
		}
	}
	return 0, false
}

// RunC19H: the durability property at the level of whole limiter replicas.
// Write-through: a report that was answered is already in the API. A replica
// that gains a shard (the previous holder crashed, or lost its lease and
// stopped gracefully) has exactly the persisted conditions of that shard on
// record once it leads.
func RunC19H(r *sim.Run) {
	t := r.T
	shards := t.Range(1, 3)
	period := time.Duration(0)
	if t.Draw(3) == 0 {
		period = time.Second
	}
	w := NewWorld(r, 2, shards, "k8s", period)
	defer w.Stop()
	w.Cond.Fault = func(node, verb, name string) int {
		if w.isDead(node) {
			select {} // a dead process never returns from its call
		}
		return simapi.Proceed
	}
	started := map[string]time.Duration{}
	for i, rp := range w.Replicas {
		w.StartReplica(i)
		started[rp.Name] = w.Now()
	}
	w.TrackLeadership()
	if os.Getenv("KG_RPCLOG") != "" { // debugging aid: network messages in the trace
		w.Net.OnServed = func(m *simnet.Msg) {
			r.Logf("  rpc %s->%s %s #%d -> %d at %v", m.From, m.To, m.Kind, m.Seq, m.Status, w.Now())
		}
	}
	ups := []string{"up-a", "up-b", "cluster-3.example.com", "x", "up-e"}[:t.Range(2, 5)]
	for _, u := range ups {
		w.PutCluster(clusterObj(u, []*schemaCfg{{name: "mif", limit: 100}}))
	}
	w.Advance(5 * time.Second)
	type inst struct {
		gw   *Gateway
		id   string
		last map[string]quota
	}
	var insts []*inst
	for i := t.Range(1, 3); i > 0; i-- {
		g := w.AddGateway(fmt.Sprintf("gw%d", len(w.Gateways)))
		insts = append(insts, &inst{gw: g, id: g.CS.ClientID(), last: map[string]quota{}})
	}
	w.Advance(3 * time.Second)

	apiQuota := func(u, id string) (int32, bool) {
		for _, c := range w.Cond.Snapshot() {
			if c.Name == condName(u, id) {
				return mifQuota(c, "mif")
			}
		}
		return 0, false
	}
	// sweepBetween: did the replica's 30 s unknown-condition sweep run in (from, to]?
	sweepBetween := func(rp *Replica, from, to time.Duration) bool {
		s0 := started[rp.Name]
		for k := time.Duration(0); s0+k <= to; k += 30 * time.Second {
			if s0+k > from {
				return true
			}
		}
		return false
	}
	prevLeader := map[int]string{}
	checkedHandover := map[string]bool{}
	acks, handovers, handoverChecks := 0, 0, 0
	nSteps := t.Range(15, 60)
	for step := 0; step < nSteps && !r.Violated(); step++ {
		r.Step = step
		switch t.Pick([]int{10, 5, 2, 2, 2}) {
		case 0: // an instance reports for an upstream
			in := insts[t.Draw(len(insts))]
			u := ups[t.Draw(len(ups))]
			cur := in.last[u]
			used := int32(0)
			if cur.known && cur.q > 0 {
				used = int32(t.Draw(int(cur.q) + 3))
			}
			client, err := in.gw.CS.ClientFor(u)
			if err != nil {
				r.Logf("report %s/%s: no client", u, in.gw.Name)
				break
			}
			ctx, cancel := context.WithTimeout(context.Background(), 4*time.Second)
			ans, err := client.ProxyV1alpha1().RateLimitConditions().UpdateStatus(ctx, allocReport(u, in.id, "mif", cur.q, cur.known, used), metav1.UpdateOptions{})
			cancel()
			w.Sc.Settle()
			if err != nil {
				r.Logf("report %s/%s: error %s", u, in.gw.Name, firstWords(strings.ReplaceAll(err.Error(), in.id, in.gw.Name)))
				break
			}
			q, ok := mifQuota(ans, "mif")
			if !ok {
				break
			}
			in.last[u] = quota{q: q, known: true}
			acks++
			r.Logf("report %s/%s used=%d -> quota %d", u, in.gw.Name, used, q)
			if period == 0 {
				// write-through: acknowledged means persisted
				r.Checked("acknowledged_report_is_persisted")
				if pq, ok := apiQuota(u, in.id); !ok || pq != q {
					r.Violate("acknowledged_but_not_persisted", "write-through", "upstream %s: instance %s was answered quota %d, but the API has %d (present=%v) for its condition", u, in.gw.Name, q, pq, ok)
					return
				}
			}
		case 1:
			d := []time.Duration{300 * time.Millisecond, time.Second, 2 * time.Second, 4 * time.Second}[t.Draw(4)]
			w.Advance(d)
			r.Logf("advance %v", d)
		case 2: // a replica crashes (only if the other one lives)
			i := t.Draw(2)
			if !w.isDead(w.Replicas[i].Name) && !w.isDead(w.Replicas[1-i].Name) {
				w.Crash(i)
				r.Logf("crash %s", w.Replicas[i].Name)
			}
		case 3: // a replica loses / regains the lease API: it stops leading gracefully
			rp := w.Replicas[t.Draw(2)]
			if w.isDead(rp.Name) {
				break
			}
			cut := !w.apiCut(rp.Name)
			w.SetAPICut(rp.Name, cut)
			r.Fault("partition")
			r.Logf("lease api cut %s=%v", rp.Name, cut)
		case 4: // a dead replica is restarted
			for i, rp := range w.Replicas {
				if w.isDead(rp.Name) {
					w.SetAPICut(rp.Name, false)
					w.StartReplica(i)
					started[rp.Name] = w.Now()
					r.Fault("restart")
					r.Logf("restart %s", rp.Name)
					break
				}
			}
		}
		// ---- hand-over oracle ---------------------------------------------
		for s := 0; s < shards; s++ {
			ls := w.LeadersOf(s)
			if len(ls) != 1 {
				continue
			}
			L := ls[0]
			if prevLeader[s] != "" && prevLeader[s] != L.Name {
				handovers++
			}
			prevLeader[s] = L.Name
			lead := w.LeadingFor(L, s)
			key := fmt.Sprintf("%s|%d|%d|%v", L.Name, L.Gen, s, (w.Now() - lead).Round(200*time.Millisecond))
			// once per leadership term, after the load had time to finish (periodic mode
			// included), before the new leader's own traffic changes the picture much
			if checkedHandover[key] || lead < 1500*time.Millisecond {
				continue
			}
			checkedHandover[key] = true
			if sweepBetween(L, w.Now()-lead-time.Second, w.Now()) {
				r.Probe("handover_check_skipped_unknown_condition_sweep")
				continue
			}
			for _, c := range w.Cond.Snapshot() {
				if c.Spec.Instance == "" || rlutil.GetShardID(c.Spec.UpstreamCluster, shards) != s {
					continue
				}
				// only conditions that were persisted before this term began and not touched
				// since: with the shipped election timing the previous holder may still serve
				// (and persist) for a moment after the new one has loaded, and the new
				// leader's own answers change the API as well
				if mt, ok := w.Cond.ModTime(c.Name); !ok || mt.After(time.Now().Add(-lead-500*time.Millisecond)) {
					continue
				}
				handoverChecks++
				r.Checked("new_leader_has_persisted_condition")
				got, err := L.RL.GetRateLimitCondition(c.Spec.UpstreamCluster, c.Name)
				if err != nil {
					if apierrors.IsNotFound(err) {
						r.Violate("persisted_condition_not_loaded", map[bool]string{true: "write-through", false: "periodic"}[period == 0], "replica %s has led shard %d for %v, but has no record of condition %s that is persisted in the API (quota %v)", L.Name, s, lead.Round(100*time.Millisecond), strings.ReplaceAll(c.Name, c.Spec.Instance, "<inst>"), func() int32 { q, _ := mifQuota(c, "mif"); return q }())
						return
					}
					continue
				}
				pq, _ := mifQuota(c, "mif")
				gq, _ := mifQuota(got, "mif")
				if period == 0 && pq != gq {
					r.Violate("loaded_condition_differs_from_persisted", "write-through", "replica %s (leading shard %d for %v): condition %s has quota %d on record, the API has %d", L.Name, s, lead.Round(100*time.Millisecond), strings.ReplaceAll(c.Name, c.Spec.Instance, "<inst>"), gq, pq)
					return
				}
			}
		}
	}
	r.SimSecs = w.Now().Seconds()
	r.ProbeN("acknowledged_reports", acks)
	r.ProbeN("leader_changes", handovers)
	r.ProbeN("handover_condition_checks", handoverChecks)
	r.Nontrivial = acks >= 3 && handovers > 0 && handoverChecks > 0
	r.Sample = map[string]interface{}{"shards": shards, "store_period": period.String(), "upstreams": len(ups), "instances": len(insts), "acks": acks, "leader_changes": handovers, "handover_checks": handoverChecks}
}
