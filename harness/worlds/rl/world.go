package rl

import (
	"context"
	"fmt"
	mathrand "math/rand"
	"net/http"
	"strconv"
	"strings"
	"sync"
	"testing/synctest"
	"time"

	coordinationv1 "k8s.io/api/coordination/v1"
	apierrors "k8s.io/apimachinery/pkg/api/errors"
	metav1 "k8s.io/apimachinery/pkg/apis/meta/v1"
	utilrand "k8s.io/apimachinery/pkg/util/rand"
	"k8s.io/apimachinery/pkg/util/sets"
	apirequest "k8s.io/apiserver/pkg/endpoints/request"
	"k8s.io/client-go/kubernetes"
	kubefake "k8s.io/client-go/kubernetes/fake"
	coordclient "k8s.io/client-go/kubernetes/typed/coordination/v1"
	"k8s.io/client-go/rest"
	componentbaseconfig "k8s.io/component-base/config"

	proxyv1alpha1 "github.com/kubewharf/kubegateway/pkg/apis/proxy/v1alpha1"
	gatewayfake "github.com/kubewharf/kubegateway/pkg/client/kubernetes/fake"
	"github.com/kubewharf/kubegateway/pkg/ratelimiter/clientsets"
	"github.com/kubewharf/kubegateway/pkg/ratelimiter/endpoints"
	"github.com/kubewharf/kubegateway/pkg/ratelimiter/limiter"
	"github.com/kubewharf/kubegateway/pkg/ratelimiter/options"
	apiserver "k8s.io/apiserver/pkg/server"

	"kgsim/sim"
	"kgsim/simapi"
	"kgsim/simnet"
)

// ---- leases with optimistic concurrency and per-node reachability ---------

type leaseStore struct {
	mu        sync.Mutex
	shared    *kubefake.Clientset
	lastRenew map[string]time.Time // node|lease name -> last write naming the node as holder
}

type nodeKube struct {
	kubernetes.Interface
	ls   *leaseStore
	node string
	w    *World
}

func (k *nodeKube) CoordinationV1() coordclient.CoordinationV1Interface {
	return &nodeCoord{k.Interface.CoordinationV1(), k}
}

type nodeCoord struct {
	coordclient.CoordinationV1Interface
	k *nodeKube
}

func (c *nodeCoord) Leases(ns string) coordclient.LeaseInterface {
	return &nodeLeases{c.CoordinationV1Interface.Leases(ns), c.k}
}

type nodeLeases struct {
	coordclient.LeaseInterface
	k *nodeKube
}

// unreachable models an API call of a node that is cut off from the API
// server (or dead): it fails after the client's request timeout; a dead
// process never returns.
func (l *nodeLeases) unreachable(verb string) error {
	w := l.k.w
	if w.isDead(l.k.node) {
		select {}
	}
	if w.apiCut(l.k.node) {
		w.R.Fault("api_timeout")
		time.Sleep(w.RenewDeadline)
		return apierrors.NewTimeoutError("lease "+verb+": API server unreachable", 1)
	}
	return nil
}

func (l *nodeLeases) Get(ctx context.Context, name string, opts metav1.GetOptions) (*coordinationv1.Lease, error) {
	if err := l.unreachable("get"); err != nil {
		return nil, err
	}
	l.k.ls.mu.Lock()
	defer l.k.ls.mu.Unlock()
	return l.LeaseInterface.Get(ctx, name, opts)
}

func (l *nodeLeases) Create(ctx context.Context, lease *coordinationv1.Lease, opts metav1.CreateOptions) (*coordinationv1.Lease, error) {
	if err := l.unreachable("create"); err != nil {
		return nil, err
	}
	l.k.ls.mu.Lock()
	defer l.k.ls.mu.Unlock()
	c := lease.DeepCopy()
	c.ResourceVersion = "1"
	out, err := l.LeaseInterface.Create(ctx, c, opts)
	if err == nil {
		l.k.ls.wrote(l.k.node, out)
	}
	return out, err
}

func (l *nodeLeases) Update(ctx context.Context, lease *coordinationv1.Lease, opts metav1.UpdateOptions) (*coordinationv1.Lease, error) {
	if err := l.unreachable("update"); err != nil {
		return nil, err
	}
	l.k.ls.mu.Lock()
	defer l.k.ls.mu.Unlock()
	cur, err := l.LeaseInterface.Get(ctx, lease.Name, metav1.GetOptions{})
	if err != nil {
		return nil, err
	}
	if lease.ResourceVersion != cur.ResourceVersion {
		return nil, apierrors.NewConflict(coordinationv1.Resource("leases"), lease.Name, fmt.Errorf("the object has been modified"))
	}
	c := lease.DeepCopy()
	rv, _ := strconv.Atoi(cur.ResourceVersion)
	c.ResourceVersion = strconv.Itoa(rv + 1)
	out, err := l.LeaseInterface.Update(ctx, c, opts)
	if err == nil {
		l.k.ls.wrote(l.k.node, out)
	}
	return out, err
}

// wrote remembers when a node last wrote a lease naming itself as the holder
// (ls.mu is held): the ground truth of "this replica's elector renewed".
func (ls *leaseStore) wrote(node string, l *coordinationv1.Lease) {
	if l.Spec.HolderIdentity == nil || !strings.Contains(*l.Spec.HolderIdentity, node) {
		return
	}
	if ls.lastRenew == nil {
		ls.lastRenew = map[string]time.Time{}
	}
	ls.lastRenew[node+"|"+l.Name] = time.Now()
}

// LastRenewal: when replica rp last renewed (or acquired) the shard's lease at
// the API server.
func (w *World) LastRenewal(rp *Replica, shard int) (time.Time, bool) {
	w.leases.mu.Lock()
	defer w.leases.mu.Unlock()
	t, ok := w.leases.lastRenew[fmt.Sprintf("%s|kube-gateway-ratelimiter-%d", rp.Name, shard)]
	return t, ok
}

// Election timing of this world = the shipped defaults of kube-ratelimiter.
const (
	LeaseDuration = 3000 * time.Millisecond
	RetryPeriod   = 900 * time.Millisecond
)

// ---- the world ---------------------------------------------------------------

type Replica struct {
	Name     string // host:port on the simulated network
	Identity string // leader identity = URL gateways dial
	RL       limiter.RateLimiter
	stop     chan struct{}
	Gen      int
}

type Gateway struct {
	Name   string
	CS     clientsets.ClientSets
	cancel context.CancelFunc
	Alive  bool
}

type World struct {
	R   *sim.Run
	Sc  *sim.Sched
	Net *simnet.Net

	Shards        int
	StoreKind     string
	StorePeriod   time.Duration
	RenewDeadline time.Duration
	// IDPrefix, when set, maps a gateway's node name to its --client-id-prefix.
	IDPrefix func(name string) string

	leases   *leaseStore
	GWFake   *gatewayfake.Clientset
	Cond     *simapi.CondAPI
	Replicas []*Replica
	Gateways []*Gateway

	mu        sync.Mutex
	dead      map[string]bool
	cutAPI    map[string]bool
	start     time.Time
	service   string
	leadSince map[string]time.Duration
}

func (w *World) isDead(node string) bool {
	w.mu.Lock()
	defer w.mu.Unlock()
	return w.dead[node]
}

func (w *World) apiCut(node string) bool {
	w.mu.Lock()
	defer w.mu.Unlock()
	return w.cutAPI[node]
}

func (w *World) SetAPICut(node string, cut bool) {
	w.mu.Lock()
	w.cutAPI[node] = cut
	w.mu.Unlock()
}

func (w *World) Now() time.Duration { return time.Since(w.start) }

// NewWorld builds replicas (not yet started) inside the bubble.
func NewWorld(r *sim.Run, nReplicas, shards int, storeKind string, storePeriod time.Duration) *World {
	seed := int64(r.T.Draw(1 << 30))
	mathrand.Seed(seed)
	utilrand.Seed(seed)
	w := &World{R: r, Shards: shards, StoreKind: storeKind, StorePeriod: storePeriod, RenewDeadline: 2800 * time.Millisecond,
		dead: map[string]bool{}, cutAPI: map[string]bool{}, start: time.Now()}
	w.Sc = sim.NewSched(r)
	w.Sc.Quiesce = synctest.Wait
	w.Sc.Enabled = func(string) bool { return false }
	w.Sc.Install()
	w.Net = simnet.New(w.Sc, r)
	w.leases = &leaseStore{shared: kubefake.NewSimpleClientset()}
	w.GWFake = gatewayfake.NewSimpleClientset()
	w.Cond = simapi.NewCondAPI(w.Sc)
	for i := 0; i < nReplicas; i++ {
		name := fmt.Sprintf("rl-%d:8443", i)
		w.Replicas = append(w.Replicas, &Replica{Name: name, Identity: "http://" + name})
		if i > 0 {
			w.service += ","
		}
		w.service += "http://" + name
	}
	return w
}

// StartReplica (re)starts replica i with fresh in-memory state.
func (w *World) StartReplica(i int) {
	rp := w.Replicas[i]
	rp.Gen++
	w.mu.Lock()
	w.dead[rp.Name] = false
	w.mu.Unlock()
	gwClient := &simapi.Clientset{Cond: w.Cond.Client(rp.Name, false), Upstream: w.GWFake.ProxyV1alpha1().UpstreamClusters()}
	kube := &nodeKube{Interface: w.leases.shared, ls: w.leases, node: rp.Name, w: w}
	opts := options.RateLimitOptions{
		ShardingCount:      w.Shards,
		LimitStore:         w.StoreKind,
		Identity:           rp.Identity,
		K8sStoreSyncPeriod: w.StorePeriod,
		LeaderElectionConfiguration: componentbaseconfig.LeaderElectionConfiguration{
			LeaderElect:       true,
			ResourceLock:      "leases",
			ResourceName:      "kube-gateway-ratelimiter",
			ResourceNamespace: "kube-gateway",
			LeaseDuration:     metav1.Duration{Duration: LeaseDuration},
			RenewDeadline:     metav1.Duration{Duration: w.RenewDeadline},
			RetryPeriod:       metav1.Duration{Duration: RetryPeriod},
		},
	}
	rl, err := limiter.NewRateLimiter(gwClient, kube, opts)
	if err != nil {
		panic(err)
	}
	rp.RL = rl
	rp.stop = make(chan struct{})
	resolver := &apirequest.RequestInfoFactory{APIPrefixes: sets.NewString("api", "apis"), GrouplessAPIPrefixes: sets.NewString("api")}
	authn := apiserver.AuthenticationInfo{Authenticator: &apiserver.InsecureSuperuser{}}
	h := endpoints.BuildHandlerChain(http.NotFoundHandler(), rl, nil, &authn, resolver)
	if nd := w.Net.Node(rp.Name); nd != nil {
		nd.Handler, nd.Dead = h, false
	} else {
		w.Net.AddNode(rp.Name, h)
	}
	go rl.Run(rp.stop)
}

// Crash isolates replica i for good: nothing it does reaches anybody any more.
func (w *World) Crash(i int) {
	rp := w.Replicas[i]
	w.mu.Lock()
	w.dead[rp.Name] = true
	w.mu.Unlock()
	if nd := w.Net.Node(rp.Name); nd != nil {
		nd.Dead = true
	}
	w.R.Fault("crash")
}

// AddGateway starts the real client set of a gateway instance.
func (w *World) AddGateway(name string) *Gateway {
	ctx, cancel := context.WithCancel(context.Background())
	prefix := name
	if w.IDPrefix != nil {
		prefix = w.IDPrefix(name) // what the operator passed as --client-id-prefix
	}
	cs := clientsets.NewClientSetsWithRestConfig(ctx, w.service, prefix, &rest.Config{Transport: w.Net.RoundTripper(name)})
	g := &Gateway{Name: name, CS: cs, cancel: cancel, Alive: true}
	w.Gateways = append(w.Gateways, g)
	return g
}

// KeepClientFor does what the gateway's reconcile loop does for every cluster with
// a global schema as far as connections are concerned: every 2 s
// (LimiterReconcilePeriod) it asks its client sets for the client of the
// upstream's shard leader, which creates that client - and only a leader the
// instance has a client for gets its heartbeats.
func (g *Gateway) KeepClientFor(up string) {
	go func() {
		for g.Alive {
			_, _ = g.CS.ClientFor(up)
			time.Sleep(2 * time.Second)
		}
	}()
}

func (g *Gateway) Stop() {
	if g.Alive {
		g.Alive = false
		g.cancel()
	}
}

// LeaderOf returns the replicas that believe they lead the shard.
func (w *World) LeadersOf(shard int) []*Replica {
	var out []*Replica
	for _, rp := range w.Replicas {
		if rp.RL == nil || w.isDead(rp.Name) {
			continue
		}
		if l, ok := rp.RL.GetLeaders()[shard]; ok && l.Leader == rp.Identity {
			out = append(out, rp)
		}
	}
	return out
}

// LeaseOf reads the shard's lease as the API server has it: the ground truth of
// leadership, independent of what any replica believes.
func (w *World) LeaseOf(shard int) (holder string, renewed time.Time, ok bool) {
	l, err := w.leases.shared.CoordinationV1().Leases("kube-gateway").Get(context.Background(), fmt.Sprintf("kube-gateway-ratelimiter-%d", shard), metav1.GetOptions{})
	if err != nil || l.Spec.HolderIdentity == nil || l.Spec.RenewTime == nil {
		return "", time.Time{}, false
	}
	return *l.Spec.HolderIdentity, l.Spec.RenewTime.Time, true
}

// PutCluster creates or updates an UpstreamCluster object for the limiter's informers.
func (w *World) PutCluster(obj *proxyv1alpha1.UpstreamCluster) {
	c := w.GWFake.ProxyV1alpha1().UpstreamClusters()
	if _, err := c.Get(context.Background(), obj.Name, metav1.GetOptions{}); err == nil {
		if _, err := c.Update(context.Background(), obj, metav1.UpdateOptions{}); err != nil {
			panic(err)
		}
	} else if _, err := c.Create(context.Background(), obj, metav1.CreateOptions{}); err != nil {
		panic(err)
	}
	w.Sc.Settle()
}

func (w *World) DeleteCluster(name string) {
	_ = w.GWFake.ProxyV1alpha1().UpstreamClusters().Delete(context.Background(), name, metav1.DeleteOptions{})
	w.Sc.Settle()
}

// Advance lets fake time pass.
func (w *World) Advance(d time.Duration) {
	time.Sleep(d)
	w.Sc.Settle()
}

func (w *World) Stop() { w.Sc.Uninstall() }

// TrackLeadership samples every replica's own view of every shard's
// leadership each 100 ms of fake time and remembers since when it has held it
// without interruption.
func (w *World) TrackLeadership() {
	w.leadSince = map[string]time.Duration{}
	go func() {
		tk := time.NewTicker(100 * time.Millisecond)
		defer tk.Stop()
		for range tk.C {
			w.mu.Lock()
			for _, rp := range w.Replicas {
				for s := 0; s < w.Shards; s++ {
					key := fmt.Sprintf("%s|%d", rp.Name, s)
					lead := !w.dead[rp.Name] && rp.RL != nil
					if lead {
						l, ok := rp.RL.GetLeaders()[s]
						lead = ok && l.Leader == rp.Identity
					}
					if lead {
						if _, ok := w.leadSince[key]; !ok {
							w.leadSince[key] = time.Since(w.start)
						}
					} else {
						delete(w.leadSince, key)
					}
				}
			}
			w.mu.Unlock()
		}
	}()
}

// LeadingFor returns how long the replica has led the shard without
// interruption in its own view (0 = not leading).
func (w *World) LeadingFor(rp *Replica, shard int) time.Duration {
	w.mu.Lock()
	defer w.mu.Unlock()
	since, ok := w.leadSince[fmt.Sprintf("%s|%d", rp.Name, shard)]
	if !ok {
		return 0
	}
	return time.Since(w.start) - since
}
