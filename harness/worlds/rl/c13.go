package rl

import (
	"context"
	"fmt"
	"sort"
	"strings"
	"time"

	metav1 "k8s.io/apimachinery/pkg/apis/meta/v1"
	"k8s.io/client-go/rest"

	proxyv1alpha1 "github.com/kubewharf/kubegateway/pkg/apis/proxy/v1alpha1"
	gatewayclientset "github.com/kubewharf/kubegateway/pkg/client/kubernetes"
	rlutil "github.com/kubewharf/kubegateway/pkg/ratelimiter/util"

	"kgsim/sim"
)

// directClient talks to one replica, bypassing the client sets' routing.
func (w *World) directClient(from string, rp *Replica) gatewayclientset.Interface {
	c, err := gatewayclientset.NewForConfig(&rest.Config{Host: rp.Identity, Transport: w.Net.RoundTripper(from)})
	if err != nil {
		panic(err)
	}
	return c
}

func (w *World) believesLeader(rp *Replica, shard int) bool {
	if rp.RL == nil {
		return false
	}
	l, ok := rp.RL.GetLeaders()[shard]
	return ok && l.Leader == rp.Identity
}

func allocReport(up, inst string, schema string, cur int32, known bool, used int32) *proxyv1alpha1.RateLimitCondition {
	item := proxyv1alpha1.RateLimitItemConfiguration{Name: schema, Strategy: proxyv1alpha1.GlobalAllocateLimit}
	st := proxyv1alpha1.RateLimitItemStatus{Name: schema, LimitItemDetail: proxyv1alpha1.LimitItemDetail{MaxRequestsInflight: &proxyv1alpha1.MaxRequestsInflightFlowControlSchema{Max: used}}}
	if known {
		item.MaxRequestsInflight = &proxyv1alpha1.MaxRequestsInflightFlowControlSchema{Max: cur}
		if cur > 0 {
			st.RequestLevel = 100 * used / cur
		}
	}
	return &proxyv1alpha1.RateLimitCondition{ObjectMeta: metav1.ObjectMeta{Name: condName(up, inst)},
		Spec:   proxyv1alpha1.RateLimitSpec{UpstreamCluster: up, Instance: inst, LimitItemConfigurations: []proxyv1alpha1.RateLimitItemConfiguration{item}},
		Status: proxyv1alpha1.RateLimitStatus{LimitItemStatuses: []proxyv1alpha1.RateLimitItemStatus{st}}}
}

// RunC13: one shard per upstream on both sides; only its leader serves it.
func RunC13(r *sim.Run) {
	t := r.T
	shards := []int{1, 2, 3, 5}[t.Draw(4)]
	nRep := t.Range(2, 3)
	storeKind := []string{"local", "k8s"}[t.Draw(2)]
	faults := !strings.Contains(r.Profile, "nofault")
	w := NewWorld(r, nRep, shards, storeKind, 0)
	defer w.Stop()
	for i := range w.Replicas {
		w.StartReplica(i)
	}
	ups := []string{"up-a", "up-b", "cluster-3.example.com", "x"}[:t.Range(2, 4)]
	for _, u := range ups {
		w.PutCluster(clusterObj(u, []*schemaCfg{{name: "mif", limit: 100}, {name: "cnt", limit: 50}}))
	}
	// the count-strategy schema: rewrite strategy
	for _, u := range ups {
		o := clusterObj(u, []*schemaCfg{{name: "mif", limit: 100}, {name: "cnt", limit: 50}})
		o.Spec.FlowControl.Schemas[1].Strategy = proxyv1alpha1.GlobalCountLimit
		w.PutCluster(o)
	}
	w.Advance(5 * time.Second)
	gws := []*Gateway{w.AddGateway("gw0"), w.AddGateway("gw1")}
	w.Advance(3 * time.Second)

	// the mapping is a function of (name, N) only, in range, and the same on both sides
	odd := []string{"", "a", "up-a", "UP-A", "üñí", "\x00\xff", strings.Repeat("z", 300), "up-a ", "x.y.z"}
	for _, n := range append(odd, ups...) {
		r.Checked("shard_function")
		s1 := rlutil.GetShardID(n, shards)
		s2 := rlutil.GetShardID(n, shards)
		if s1 < 0 || s1 >= shards || s1 != s2 {
			r.Violate("shard_out_of_range_or_unstable", "c13", "GetShardID(%q, %d) = %d / %d", n, shards, s1, s2)
			return
		}
		for _, g := range gws {
			if gs, err := g.CS.ShardIDFor(n); err == nil && gs != s1 {
				r.Violate("shard_disagreement", "c13", "gateway computes shard %d for %q, the server %d (N=%d)", gs, n, s1, shards)
				return
			}
		}
	}

	lostSince := map[string]time.Duration{} // replica|shard -> since when it no longer believes to lead
	var reqID int64
	calls, refused, served, leaderChanges := 0, 0, 0, 0
	prevLeader := map[int]string{}
	nSteps := t.Range(20, 90)
	for step := 0; step < nSteps && !r.Violated(); step++ {
		r.Step = step
		weights := []int{12, 4, 0, 0, 0, 0}
		if faults {
			weights = []int{12, 4, 2, 1, 1, 1}
		}
		switch t.Pick(weights) {
		case 0: // an RPC for a drawn upstream to a drawn replica (the right one or not)
			u := ups[t.Draw(len(ups))]
			shard := rlutil.GetShardID(u, shards)
			rp := w.Replicas[t.Draw(len(w.Replicas))]
			if w.isDead(rp.Name) {
				break
			}
			calls++
			inst := "probe-inst"
			before := w.believesLeader(rp, shard)
			cl := w.directClient("probe", rp)
			ctx, cancel := context.WithTimeout(context.Background(), 3*time.Second)
			var err error
			kind := "allocate"
			if t.Draw(2) == 0 {
				_, err = cl.ProxyV1alpha1().RateLimitConditions().UpdateStatus(ctx, allocReport(u, inst, "mif", 0, false, 0), metav1.UpdateOptions{})
			} else {
				kind = "acquire"
				reqID++
				acq := &proxyv1alpha1.RateLimitAcquire{ObjectMeta: metav1.ObjectMeta{Name: u}, Spec: proxyv1alpha1.RateLimitAcquireSpec{Instance: inst, RequestID: reqID,
					Requests: []proxyv1alpha1.RateLimitAcquireRequest{{FlowControl: "cnt", Tokens: int32(t.Draw(5))}}}}
				_, err = cl.ProxyV1alpha1().RateLimitConditions().Acquire(ctx, u, acq, metav1.CreateOptions{})
			}
			cancel()
			w.Sc.Settle()
			after := w.believesLeader(rp, shard)
			r.Checked("leader_guard")
			if err == nil {
				served++
				// ground truth, independent of what the replica's own bookkeeping says:
				// client-go's elector starts a renewal round one retry period after the
				// last successful one and gives leadership up when that round has lasted
				// for the renew deadline. A replica that serves must therefore have
				// written the lease (naming itself) within retry period + renew deadline.
				r.Checked("served_only_while_renewing_the_lease")
				lr, ok := w.LastRenewal(rp, shard)
				if bound := RetryPeriod + w.RenewDeadline + 300*time.Millisecond; !ok || time.Since(lr) > bound {
					holder, _, _ := w.LeaseOf(shard)
					r.Violate("served_after_leadership_ended", kind, "replica %s answered an %s for upstream %s (shard %d) successfully, but it last renewed the shard's lease %v ago (its elector gives up after at most %v); the lease is now held by %q", rp.Name, kind, u, shard, time.Since(lr).Round(time.Millisecond), bound, holder)
					return
				}
				if !before && !after {
					r.Violate("served_without_leadership", kind, "replica %s answered an %s for upstream %s (shard %d) successfully although it did not hold the shard's leadership before or after the call (leaders it knows: %v)", rp.Name, kind, u, shard, leadersBrief(rp))
					return
				}
			} else {
				refused++
				if !before && !after && !strings.Contains(err.Error(), "lost") && !strings.Contains(err.Error(), "timed out") && !strings.Contains(err.Error(), "deadline") {
					if !strings.Contains(err.Error(), "leader is") {
						r.Violate("refusal_does_not_name_leader", kind, "replica %s refused an %s for upstream %s (shard %d) it does not lead, but the error does not name the leader: %s", rp.Name, kind, u, shard, firstWords(err.Error()))
						return
					}
				}
			}
			r.Logf("%s %s -> %s leader(before=%v after=%v): err=%v", kind, u, rp.Name, before, after, err != nil)
		case 1:
			d := []time.Duration{300 * time.Millisecond, time.Second, 2 * time.Second, 4 * time.Second}[t.Draw(4)]
			w.Advance(d)
			r.Logf("advance %v", d)
		case 2: // a replica loses / regains the API server (its leases expire)
			rp := w.Replicas[t.Draw(len(w.Replicas))]
			cut := !w.apiCut(rp.Name)
			w.SetAPICut(rp.Name, cut)
			r.Fault("partition")
			r.Logf("api cut %s = %v", rp.Name, cut)
		case 3: // crash
			i := t.Draw(len(w.Replicas))
			if !w.isDead(w.Replicas[i].Name) {
				alive := 0
				for _, x := range w.Replicas {
					if !w.isDead(x.Name) {
						alive++
					}
				}
				if alive > 1 {
					w.Crash(i)
					r.Logf("crash %s", w.Replicas[i].Name)
				}
			}
		case 4: // restart a dead replica
			for i, rp := range w.Replicas {
				if w.isDead(rp.Name) {
					w.SetAPICut(rp.Name, false)
					w.StartReplica(i)
					r.Fault("restart")
					r.Logf("restart %s", rp.Name)
					break
				}
			}
		case 5: // gateways lose a replica
			rp := w.Replicas[t.Draw(len(w.Replicas))]
			g := gws[t.Draw(len(gws))]
			cut := t.Draw(2) == 0
			w.Net.Partition(g.Name, rp.Name, cut)
			r.Fault("partition")
			r.Logf("partition %s-%s = %v", g.Name, rp.Name, cut)
		}
		// (c) a replica that stopped leading a shard exposes none of its state after one sync period
		for _, rp := range w.Replicas {
			if w.isDead(rp.Name) || rp.RL == nil {
				continue
			}
			for _, u := range ups {
				shard := rlutil.GetShardID(u, shards)
				key := fmt.Sprintf("%s|%d|%d", rp.Name, rp.Gen, shard)
				if w.believesLeader(rp, shard) {
					delete(lostSince, key)
					continue
				}
				if _, ok := lostSince[key]; !ok {
					lostSince[key] = w.Now()
				}
				if w.Now()-lostSince[key] > 2500*time.Millisecond {
					r.Checked("state_discarded_after_losing_leadership")
					if st, err := rp.RL.GetUpstreamStatus(u); err == nil && st != nil {
						r.Violate("state_kept_after_losing_leadership", "c13", "replica %s has not believed to lead shard %d for %v, yet still exposes state of upstream %s", rp.Name, shard, w.Now()-lostSince[key], u)
						return
					}
				}
			}
		}
		for s := 0; s < shards; s++ {
			cur := ""
			for _, rp := range w.LeadersOf(s) {
				cur += rp.Name + ","
			}
			if cur != prevLeader[s] {
				leaderChanges++
				prevLeader[s] = cur
			}
		}
	}
	r.SimSecs = w.Now().Seconds()
	r.ProbeN("rpcs", calls)
	r.ProbeN("rpcs_served", served)
	r.ProbeN("rpcs_refused", refused)
	r.ProbeN("leader_view_changes", leaderChanges)
	r.Nontrivial = served > 0 && refused > 0
	r.Sample = map[string]interface{}{"shards": shards, "replicas": nRep, "store": storeKind, "rpcs": calls, "served": served, "refused": refused, "leader_view_changes": leaderChanges}
}

func leadersBrief(rp *Replica) string {
	var parts []string
	for s, l := range rp.RL.GetLeaders() {
		parts = append(parts, fmt.Sprintf("%d:%s", s, strings.TrimPrefix(l.Leader, "http://")))
	}
	sort.Strings(parts)
	return strings.Join(parts, " ")
}
