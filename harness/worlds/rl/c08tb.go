package rl

import (
	"context"
	"fmt"
	"math"
	"strings"
	"time"

	metav1 "k8s.io/apimachinery/pkg/apis/meta/v1"

	proxyv1alpha1 "github.com/kubewharf/kubegateway/pkg/apis/proxy/v1alpha1"

	"kgsim/sim"
	"kgsim/simnet"
)

type tbGrant struct {
	at    time.Duration // server time of the grant
	n     int64
	epoch int
}

// RunC08TB: the token-bucket half of C08 at the Acquire RPC of a real leading
// replica: tokens granted to all instances in any interval T total at most
// burst + qps*T, each grant lies between 0 and the amount asked, negative asks
// are refused.
func RunC08TB(r *sim.Run) {
	t := r.T
	storeKind := []string{"local", "k8s"}[t.Draw(2)]
	w := NewWorld(r, 1, 1, storeKind, 0)
	defer w.Stop()
	w.StartReplica(0)
	const up = "up-a"
	qps := int32([]int{1, 2, 5, 10, 50, 100, 1000}[t.Draw(7)])
	burst := qps * int32(t.Range(1, 3))
	// the schema named "tb" may be declared as a max-in-flight schema for a while (at the
	// start, or in between) and become a token bucket under the same name: its grants are
	// then bounded by the bucket declared last
	tbIsTB := t.Draw(3) != 0
	flips := 0
	mk := func() *proxyv1alpha1.UpstreamCluster {
		first := &schemaCfg{name: "tb", tb: true, limit: qps, gburst: burst}
		if !tbIsTB {
			first = &schemaCfg{name: "tb", limit: 50}
		}
		o := clusterObj(up, []*schemaCfg{first, {name: "mif", limit: 50}})
		for i := range o.Spec.FlowControl.Schemas {
			o.Spec.FlowControl.Schemas[i].Strategy = proxyv1alpha1.GlobalCountLimit
		}
		return o
	}
	w.PutCluster(mk())
	w.Advance(5 * time.Second)
	rp := w.Replicas[0]
	if !w.believesLeader(rp, 0) {
		r.Inconclusive("no leader after 5 s")
		return
	}
	var servedAt time.Duration
	w.Net.OnServed = func(m *simnet.Msg) {
		if m.Kind == "acquire" {
			servedAt = w.Now()
		}
	}
	nInst := t.Range(1, 4)
	cl := w.directClient("probe", rp)
	var grants []tbGrant
	epoch := 0
	limits := [][2]int32{{qps, burst}} // by epoch
	var reqID int64
	asked, refusedNeg, halved := 0, 0, 0
	nSteps := t.Range(20, 120)
	for step := 0; step < nSteps && !r.Violated(); step++ {
		r.Step = step
		switch t.Pick([]int{12, 6, 3, 1}) {
		case 3: // the schema changes its type under the same name
			tbIsTB = !tbIsTB
			flips++
			if tbIsTB {
				qps = int32([]int{1, 2, 5, 10, 50, 100, 1000}[t.Draw(7)])
				burst = qps * int32(t.Range(1, 3))
			}
			w.PutCluster(mk())
			w.Advance(100 * time.Millisecond)
			if tbIsTB {
				epoch++
				grants = append(grants, tbGrant{at: w.Now(), n: 0, epoch: -epoch})
				limits = append(limits, [2]int32{qps, burst})
			}
			r.Logf("schema tb is now a token bucket=%v (qps=%d burst=%d)", tbIsTB, qps, burst)
		case 0:
			inst := fmt.Sprintf("inst%d", t.Draw(nInst))
			nReq := 1 + t.Pick([]int{6, 2, 1})
			var reqs []proxyv1alpha1.RateLimitAcquireRequest
			for k := 0; k < nReq; k++ {
				vals := []int32{0, 1, 2, qps / 2, qps, burst - 1, burst, burst + 1, 2 * burst, 8*burst + 3, 3, 7, -1, -5, math.MaxInt32, math.MinInt32}
				fc := "tb"
				if t.Draw(8) == 0 {
					fc = "mif"
				}
				reqs = append(reqs, proxyv1alpha1.RateLimitAcquireRequest{FlowControl: fc, Tokens: vals[t.Draw(len(vals))]})
			}
			reqID++
			acq := &proxyv1alpha1.RateLimitAcquire{ObjectMeta: metav1.ObjectMeta{Name: up}, Spec: proxyv1alpha1.RateLimitAcquireSpec{Instance: inst, RequestID: reqID, Requests: reqs}}
			ctx, cancel := context.WithTimeout(context.Background(), 3*time.Second)
			res, err := cl.ProxyV1alpha1().RateLimitConditions().Acquire(ctx, up, acq, metav1.CreateOptions{})
			cancel()
			w.Sc.Settle()
			if err != nil {
				r.Logf("acquire %s %v: error %s", inst, reqs, firstWords(err.Error()))
				break
			}
			if len(res.Status.Results) != len(reqs) {
				r.Violate("results_do_not_match_requests", "c08tb", "%d requests, %d results", len(reqs), len(res.Status.Results))
				return
			}
			var parts []string
			for k, rs := range res.Status.Results {
				ask := reqs[k].Tokens
				parts = append(parts, fmt.Sprintf("%s:%d->%v/%d%s", reqs[k].FlowControl, ask, rs.Accept, rs.Limit, map[bool]string{true: " err", false: ""}[rs.Error != ""]))
				if reqs[k].FlowControl != "tb" || !tbIsTB {
					continue
				}
				asked++
				r.Checked("grant_between_0_and_ask")
				if ask < 0 {
					refusedNeg++
					if rs.Accept || rs.Error == "" {
						r.Violate("negative_ask_not_refused", "c08tb", "an ask of %d tokens was answered accept=%v limit=%d error=%q", ask, rs.Accept, rs.Limit, rs.Error)
						return
					}
					continue
				}
				if rs.Accept {
					if rs.Limit < 0 || rs.Limit > ask {
						r.Violate("grant_out_of_range", "c08tb", "an ask of %d tokens was granted %d", ask, rs.Limit)
						return
					}
					if rs.Limit < ask {
						halved++
					}
					grants = append(grants, tbGrant{at: servedAt, n: int64(rs.Limit), epoch: epoch})
				}
			}
			r.Logf("acquire %s at %v: %s", inst, servedAt, strings.Join(parts, " "))
		case 1:
			d := []time.Duration{time.Millisecond, time.Second / time.Duration(qps), 100 * time.Millisecond, 500 * time.Millisecond, time.Second, 5 * time.Second, time.Minute}[t.Draw(7)]
			w.Advance(d)
			r.Logf("advance %v", d)
		case 2: // the limit changes: a new bucket; grants are bounded per epoch of unchanged limits
			if !tbIsTB {
				break
			}
			qps = int32([]int{1, 2, 5, 10, 50, 100, 1000}[t.Draw(7)])
			burst = qps * int32(t.Range(1, 3))
			w.PutCluster(mk())
			w.Advance(100 * time.Millisecond)
			epoch++
			grants = append(grants, tbGrant{at: w.Now(), n: 0, epoch: -epoch}) // marker: carries the limits below
			r.Logf("limit now qps=%d burst=%d", qps, burst)
			limits = append(limits, [2]int32{qps, burst})
		}
	}
	if r.Violated() {
		return
	}
	// window bound per epoch
	ep := 0
	var cur []tbGrant
	check := func(gs []tbGrant, q, b int32) bool {
		r.Checked("grants_within_burst_plus_qps_T")
		for i := range gs {
			var sum int64
			for j := i; j < len(gs); j++ {
				sum += gs[j].n
				T := (gs[j].at - gs[i].at).Seconds()
				bound := float64(b) + float64(q)*T
				if float64(sum) > bound*(1+1e-9)+1e-6 {
					r.Violate("grants_exceed_burst_plus_qps_T", fmt.Sprintf("qps=%d burst=%d", q, b), "qps %d burst %d: %d tokens were granted within %.6fs (from %v to %v), the bound is %.3f", q, b, sum, T, gs[i].at, gs[j].at, bound)
					return false
				}
			}
		}
		return true
	}
	for _, g := range grants {
		if g.epoch < 0 {
			if !check(cur, limits[ep][0], limits[ep][1]) {
				return
			}
			cur = nil
			ep = -g.epoch
			continue
		}
		cur = append(cur, g)
	}
	if !check(cur, limits[ep][0], limits[ep][1]) {
		return
	}
	r.SimSecs = w.Now().Seconds()
	r.ProbeN("token_asks", asked)
	r.ProbeN("negative_asks", refusedNeg)
	r.ProbeN("grants_smaller_than_ask", halved)
	r.ProbeN("schema_type_changes_under_one_name", flips)
	r.ProbeN("limit_changes", epoch)
	r.Nontrivial = len(grants) >= 5 && halved > 0
	r.Sample = map[string]interface{}{"qps": qps, "burst": burst, "instances": nInst, "asks": asked, "grants": len(grants), "halved": halved, "store": storeKind}
}
