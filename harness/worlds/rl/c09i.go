package rl

import (
	"fmt"
	"strings"
	"testing/synctest"
	"time"

	proxyv1alpha1 "github.com/kubewharf/kubegateway/pkg/apis/proxy/v1alpha1"
	"github.com/kubewharf/kubegateway/pkg/flowcontrols/flowcontrol"
	"github.com/kubewharf/kubegateway/pkg/flowcontrols/remote"

	"kgsim/sim"
)

type nopCounter struct{}

func (nopCounter) Count(int32) {}

type nopProvider struct{}

func (nopProvider) Add(string, proxyv1alpha1.FlowControlSchemaType, remote.RemoteFlowControlWrapper) remote.GlobalCounter {
	return nopCounter{}
}
func (nopProvider) Get(string) remote.GlobalCounter { return nopCounter{} }
func (nopProvider) Stop(string)                     {}

// RunC09I: the count-strategy max-in-flight wrapper of one schema under
// statement-level interleaving of its three callers: the global counter
// delivering server answers (SetLimit: errors, accepts, refusals with arbitrary
// limits), the reconcile loop applying a changed global limit (Sync -> Resize)
// and requests (TryAcquire / Release). Whatever the interleaving, the instance
// never has more requests in flight through it than the global limit that is
// (or, while a change is being applied, was) configured.
func RunC09I(r *sim.Run) {
	t := r.T
	local := int32(t.Range(1, 4))
	global := local + int32(t.Range(0, 10))
	schema := func(l, g int32) proxyv1alpha1.FlowControlSchema {
		s := proxyv1alpha1.FlowControlSchema{Name: "s", Strategy: proxyv1alpha1.GlobalCountLimit}
		s.MaxRequestsInflight = &proxyv1alpha1.MaxRequestsInflightFlowControlSchema{Max: l}
		s.GlobalMaxRequestsInflight = &proxyv1alpha1.MaxRequestsInflightFlowControlSchema{Max: g}
		return s
	}
	item := func(g int32) proxyv1alpha1.RateLimitItemConfiguration {
		return proxyv1alpha1.RateLimitItemConfiguration{Name: "s", Strategy: proxyv1alpha1.GlobalCountLimit,
			LimitItemDetail: proxyv1alpha1.LimitItemDetail{MaxRequestsInflight: &proxyv1alpha1.MaxRequestsInflightFlowControlSchema{Max: g}}}
	}
	cache := remote.NewFlowControlCache("c1", "s", "gw-1-abcde", nopProvider{})
	defer cache.Stop()
	cache.LocalFlowControl().Sync(schema(local, global))
	cache.EnableRemoteFlowControl()
	rf := cache.FlowControl()
	rf.Sync(item(global))

	sc := sim.NewSched(r)
	sc.Quiesce = synctest.Wait
	sc.Enabled = func(site string) bool { return strings.HasPrefix(site, "global_flowcontrol.go") }
	sc.Install()
	defer sc.Uninstall()

	// the bound that holds at an instant: the largest global limit configured
	// since the last moment no change was being applied
	curGlobal, loosest := global, global
	applying := 0
	inflight, maxOver := 0, 0
	var over string
	admitted, refused := 0, 0
	var gHist []int32 // every global limit that was being applied, in order
	// an admission is judged against the loosest limit that was in force at some
	// moment of its TryAcquire call (the call may have taken its slot before a
	// lowering that completed before it returned)
	note := func(th string, boundAtCall int32, histAtCall int) {
		bound := boundAtCall
		for _, g := range gHist[histAtCall:] {
			if g > bound {
				bound = g
			}
		}
		if loosest > bound {
			bound = loosest
		}
		if inflight > int(bound) && inflight-int(bound) > maxOver {
			maxOver = inflight - int(bound)
			over = fmt.Sprintf("%s admitted the request that made %d in flight; the global limit is %d (loosest limit in force at some moment of that call: %d)", th, inflight, curGlobal, bound)
		}
	}
	var reqTime int64 = time.Now().UnixNano()

	// answers of the server
	nAns := t.Range(1, 5)
	type ans struct {
		kind  int
		limit int32
	}
	anss := make([]ans, nAns)
	for i := range anss {
		vals := []int32{0, 1, local, global, global + 1, global * 5, -1, 1 << 30}
		anss[i] = ans{kind: t.Pick([]int{4, 3, 2, 1}), limit: vals[t.Draw(len(vals))]}
	}
	sc.Go("answers", func() {
		for _, a := range anss {
			sc.Boundary()
			reqTime++
			var res *remote.AcquireResult
			switch a.kind {
			case 0:
				res = remote.KgsimAcquireResult("an error on the server", false, 0, reqTime)
			case 1:
				res = remote.KgsimAcquireResult("", true, a.limit, reqTime)
			case 2:
				res = remote.KgsimAcquireResult("", false, a.limit, reqTime)
			default:
				res = remote.KgsimAcquireResult("RequestIDTooOld", false, 0, reqTime)
			}
			rf.SetLimit(res)
			r.Logf("answer kind=%d limit=%d", a.kind, a.limit)
		}
	})
	// the reconcile loop applies changed limits
	nChg := t.Range(1, 3)
	type chg struct{ l, g int32 }
	chgs := make([]chg, nChg)
	for i := range chgs {
		l := int32(t.Range(1, 4))
		chgs[i] = chg{l, l + int32(t.Range(0, 10))}
	}
	sc.Go("reconcile", func() {
		for _, c := range chgs {
			sc.Boundary()
			// the new object reaches the cluster info (local config), then the loop's next round applies it
			applying++
			gHist = append(gHist, c.g)
			if c.g > loosest {
				loosest = c.g
			}
			cache.LocalFlowControl().Sync(schema(c.l, c.g))
			rf.Sync(item(c.g))
			curGlobal = c.g
			applying--
			if applying == 0 {
				loosest = curGlobal
			}
			r.Logf("limits now local=%d global=%d", c.l, c.g)
		}
	})
	nReq := t.Range(2, 5)
	for i := 0; i < nReq; i++ {
		i := i
		rounds := t.Range(1, 3)
		sc.Go(fmt.Sprintf("req%d", i), func() {
			for k := 0; k < rounds; k++ {
				sc.Boundary()
				var fc flowcontrol.FlowControl = rf
				boundAtCall, histAtCall := loosest, len(gHist)
				if !fc.TryAcquire() {
					refused++
					r.Logf("req%d refused", i)
					continue
				}
				admitted++
				inflight++
				note(fmt.Sprintf("req%d", i), boundAtCall, histAtCall)
				r.Logf("req%d admitted (%d in flight)", i, inflight)
				sc.Boundary()
				inflight--
				fc.Release()
			}
		})
	}
	// drive: drawn thread at each step; a thread that waits for an answer (TryAcquire
	// may wait up to 300 ms for the next SetLimit) is left alone until it comes back
	for steps := 0; steps < 4000; steps++ {
		el := sc.Eligible()
		if len(el) == 0 {
			alldone := true
			for _, th := range sc.Threads() {
				if !th.Done() {
					alldone = false
				}
			}
			if alldone {
				break
			}
			time.Sleep(350 * time.Millisecond) // let waiting requests time out
			sc.Settle()
			continue
		}
		sc.Resume(el[t.Draw(len(el))])
	}
	for _, th := range sc.Threads() {
		if th.Panic != nil {
			r.Violate("panic", th.PanicTop, "thread %s panicked: %v", th.Name, th.Panic)
			return
		}
		if !th.Done() {
			r.Inconclusive("step budget: " + sc.Describe())
			return
		}
	}
	r.Checked("inflight_within_global_limit_under_interleaving")
	if maxOver > 0 {
		r.Violate("global_limit_exceeded", "count-wrapper-interleaving", "%s", over)
		return
	}
	// afterwards, nothing in flight: at most the current global limit can be taken
	r.Checked("capacity_after_quiescence_within_global_limit")
	got := int32(0)
	for i := int32(0); i < curGlobal+3; i++ {
		if rf.TryAcquire() {
			got++
		}
	}
	if got > curGlobal {
		r.Violate("global_limit_exceeded", "count-wrapper-after", "after all callers finished (limits local/global now %d; answers %v), %d requests could be admitted at once through the server-controlled limiter", curGlobal, anss, got)
		return
	}
	r.ProbeN("admitted", admitted)
	r.ProbeN("refused", refused)
	r.ProbeN("yields", sc.Yields)
	r.Nontrivial = admitted > 0 && sc.Yields > 20
	r.Sample = map[string]interface{}{"local": local, "global": global, "answers": nAns, "changes": nChg, "requests": nReq}
}
