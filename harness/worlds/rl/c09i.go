package rl

import (
	"fmt"
	"strings"
	"testing/synctest"
	"time"

	proxyv1alpha1 "github.com/kubewharf/kubegateway/pkg/apis/proxy/v1alpha1"
	"github.com/kubewharf/kubegateway/pkg/flowcontrols/flowcontrol"
	"github.com/kubewharf/kubegateway/pkg/flowcontrols/remote"

	"kgsim/sim"
)

type nopCounter struct{}

func (nopCounter) Count(int32) {}

type nopProvider struct{}

func (nopProvider) Add(string, proxyv1alpha1.FlowControlSchemaType, remote.RemoteFlowControlWrapper) remote.GlobalCounter {
	return nopCounter{}
}
func (nopProvider) Get(string) remote.GlobalCounter { return nopCounter{} }
func (nopProvider) Stop(string)                     {}

// RunC09I: the count-strategy max-in-flight wrapper of one schema under
// statement-level interleaving of its three callers: the global counter
// delivering server answers (SetLimit: errors, accepts, refusals with arbitrary
// limits), the reconcile loop applying a changed global limit (Sync -> Resize)
// and requests (TryAcquire / Release). Whatever the interleaving, the instance
// never has more requests in flight through it than the global limit that is
// (or, while a change is being applied, was) configured.
func RunC09I(r *sim.Run) {
	t := r.T
	local := int32(t.Range(1, 4))
	global := local + int32(t.Range(0, 10))
	schema := func(l, g int32) proxyv1alpha1.FlowControlSchema {
		s := proxyv1alpha1.FlowControlSchema{Name: "s", Strategy: proxyv1alpha1.GlobalCountLimit}
		s.MaxRequestsInflight = &proxyv1alpha1.MaxRequestsInflightFlowControlSchema{Max: l}
		s.GlobalMaxRequestsInflight = &proxyv1alpha1.MaxRequestsInflightFlowControlSchema{Max: g}
		return s
	}
	item := func(g int32) proxyv1alpha1.RateLimitItemConfiguration {
		return proxyv1alpha1.RateLimitItemConfiguration{Name: "s", Strategy: proxyv1alpha1.GlobalCountLimit,
			LimitItemDetail: proxyv1alpha1.LimitItemDetail{MaxRequestsInflight: &proxyv1alpha1.MaxRequestsInflightFlowControlSchema{Max: g}}}
	}
	cache := remote.NewFlowControlCache("c1", "s", "gw-1-abcde", nopProvider{})
	defer cache.Stop()
	cache.LocalFlowControl().Sync(schema(local, global))
	cache.EnableRemoteFlowControl()
	rf := cache.FlowControl()
	rf.Sync(item(global))

	sc := sim.NewSched(r)
	sc.Quiesce = synctest.Wait
	sc.Enabled = func(site string) bool { return strings.HasPrefix(site, "global_flowcontrol.go") }
	sc.Install()
	defer sc.Uninstall()

	// the bound that holds at an instant: the largest global limit configured
	// since the last moment no change was being applied
	curGlobal, loosest := global, global
	applying := 0
	inflight, maxOver := 0, 0
	var over string
	admitted, refused := 0, 0
	var gHist []int32 // every global limit that was being applied, in order
	// an admission is judged against the loosest limit that was in force at some
	// moment of its TryAcquire call (the call may have taken its slot before a
	// lowering that completed before it returned)
	note := func(th string, boundAtCall int32, histAtCall int) {
		bound := boundAtCall
		for _, g := range gHist[histAtCall:] {
			if g > bound {
				bound = g
			}
		}
		if loosest > bound {
			bound = loosest
		}
		if inflight > int(bound) && inflight-int(bound) > maxOver {
			maxOver = inflight - int(bound)
			over = fmt.Sprintf("%s admitted the request that made %d in flight; the global limit is %d (loosest limit in force at some moment of that call: %d)", th, inflight, curGlobal, bound)
		}
	}
	var reqTime int64 = time.Now().UnixNano()

	// answers of the server
	nAns := t.Range(1, 5)
	type ans struct {
		kind  int
		limit int32
	}
	anss := make([]ans, nAns)
	for i := range anss {
		vals := []int32{0, 1, local, global, global + 1, global * 5, -1, 1 << 30}
		anss[i] = ans{kind: t.Pick([]int{4, 3, 2, 1}), limit: vals[t.Draw(len(vals))]}
	}
	sc.Go("answers", func() {
		for _, a := range anss {
			sc.Boundary()
			reqTime++
			var res *remote.AcquireResult
			switch a.kind {
			case 0:
				res = remote.KgsimAcquireResult("an error on the server", false, 0, reqTime)
			case 1:
				res = remote.KgsimAcquireResult("", true, a.limit, reqTime)
			case 2:
				res = remote.KgsimAcquireResult("", false, a.limit, reqTime)
			default:
				res = remote.KgsimAcquireResult("RequestIDTooOld", false, 0, reqTime)
			}
			rf.SetLimit(res)
			r.Logf("answer kind=%d limit=%d", a.kind, a.limit)
		}
	})
	// the reconcile loop applies changed limits
	nChg := t.Range(1, 3)
	type chg struct{ l, g int32 }
	chgs := make([]chg, nChg)
	for i := range chgs {
		l := int32(t.Range(1, 4))
		chgs[i] = chg{l, l + int32(t.Range(0, 10))}
	}
	sc.Go("reconcile", func() {
		for _, c := range chgs {
			sc.Boundary()
			// the new object reaches the cluster info (local config), then the loop's next round applies it
			applying++
			gHist = append(gHist, c.g)
			if c.g > loosest {
				loosest = c.g
			}
			cache.LocalFlowControl().Sync(schema(c.l, c.g))
			rf.Sync(item(c.g))
			curGlobal = c.g
			applying--
			if applying == 0 {
				loosest = curGlobal
			}
			r.Logf("limits now local=%d global=%d", c.l, c.g)
		}
	})
	nReq := t.Range(2, 5)
	for i := 0; i < nReq; i++ {
		i := i
		rounds := t.Range(1, 3)
		sc.Go(fmt.Sprintf("req%d", i), func() {
			for k := 0; k < rounds; k++ {
				sc.Boundary()
				var fc flowcontrol.FlowControl = rf
				boundAtCall, histAtCall := loosest, len(gHist)
				if !fc.TryAcquire() {
					refused++
					r.Logf("req%d refused", i)
					continue
				}
				admitted++
				inflight++
				note(fmt.Sprintf("req%d", i), boundAtCall, histAtCall)
				r.Logf("req%d admitted (%d in flight)", i, inflight)
				sc.Boundary()
				inflight--
				fc.Release()
			}
		})
	}
	// drive: drawn thread at each step; a thread that waits for an answer (TryAcquire
	// may wait up to 300 ms for the next SetLimit) is left alone until it comes back
	for steps := 0; steps < 4000; steps++ {
		el := sc.Eligible()
		if len(el) == 0 {
			alldone := true
			for _, th := range sc.Threads() {
				if !th.Done() {
					alldone = false
				}
			}
			if alldone {
				break
			}
			time.Sleep(350 * time.Millisecond) // let waiting requests time out
			sc.Settle()
			continue
		}
		sc.Resume(el[t.Draw(len(el))])
	}
	for _, th := range sc.Threads() {
		if th.Panic != nil {
			r.Violate("panic", th.PanicTop, "thread %s panicked: %v", th.Name, th.Panic)
			return
		}
		if !th.Done() {
			r.Inconclusive("step budget: " + sc.Describe())
			return
		}
	}
	r.Checked("inflight_within_global_limit_under_interleaving")
	if maxOver > 0 {
		r.Violate("global_limit_exceeded", "count-wrapper-interleaving", "%s", over)
		return
	}
	// afterwards, nothing in flight: at most the current global limit can be taken
	r.Checked("capacity_after_quiescence_within_global_limit")
	got := int32(0)
	for i := int32(0); i < curGlobal+3; i++ {
		if rf.TryAcquire() {
			got++
		}
	}
	if got > curGlobal {
		r.Violate("global_limit_exceeded", "count-wrapper-after", "after all callers finished (limits local/global now %d; answers %v), %d requests could be admitted at once through the server-controlled limiter", curGlobal, anss, got)
		return
	}
	r.ProbeN("admitted", admitted)
	r.ProbeN("refused", refused)
	r.ProbeN("yields", sc.Yields)
	r.Nontrivial = admitted > 0 && sc.Yields > 20
	r.Sample = map[string]interface{}{"local": local, "global": global, "answers": nAns, "changes": nChg, "requests": nReq}
}

// RunC09ITB: the count-strategy token-bucket wrapper of one schema with its
// three callers interleaved at statement level, as RunC09I does for the
// max-in-flight wrapper. Admissions carry fake-clock stamps; every window of
// admissions is bounded by the loosest limits that were in force at some
// moment of it (one fresh burst per change inside the window): qps*T + burst.
func RunC09ITB(r *sim.Run) {
	t := r.T
	start := time.Now()
	now := func() time.Duration { return time.Since(start) }
	drawLimits := func() (int32, int32) {
		l := int32([]int{1, 2, 5, 10, 20}[t.Draw(5)])
		g := l * int32(t.Range(1, 10))
		return l, g
	}
	local, global := drawLimits()
	schema := func(l, g int32) proxyv1alpha1.FlowControlSchema {
		s := proxyv1alpha1.FlowControlSchema{Name: "s", Strategy: proxyv1alpha1.GlobalCountLimit}
		s.TokenBucket = &proxyv1alpha1.TokenBucketFlowControlSchema{QPS: l, Burst: l}
		s.GlobalTokenBucket = &proxyv1alpha1.TokenBucketFlowControlSchema{QPS: g, Burst: g}
		return s
	}
	item := func(g int32) proxyv1alpha1.RateLimitItemConfiguration {
		return proxyv1alpha1.RateLimitItemConfiguration{Name: "s", Strategy: proxyv1alpha1.GlobalCountLimit,
			LimitItemDetail: proxyv1alpha1.LimitItemDetail{TokenBucket: &proxyv1alpha1.TokenBucketFlowControlSchema{QPS: g, Burst: g}}}
	}
	cache := remote.NewFlowControlCache("c1", "s", "gw-1-abcde", nopProvider{})
	defer cache.Stop()
	cache.LocalFlowControl().Sync(schema(local, global))
	cache.EnableRemoteFlowControl()
	rf := cache.FlowControl()
	rf.Sync(item(global))

	sc := sim.NewSched(r)
	sc.Quiesce = synctest.Wait
	sc.Enabled = func(site string) bool { return strings.HasPrefix(site, "global_flowcontrol.go") }
	sc.Install()
	defer sc.Uninstall()

	// order of events: a logical clock (most of a run happens at one fake instant)
	seq := 0
	type span struct {
		from, until int // logical stamps; until < 0: still in force
		g           int32
		applied     int // stamp at which the round that applied it had completed (0: initial, -1: in progress)
	}
	hist := []*span{{0, -1, global, 0}}
	type admission struct {
		at        time.Duration
		callStart int // logical stamp when its TryAcquire began
		done      int // ... and when it returned
	}
	var adm []admission
	var reqTime int64 = time.Now().UnixNano()
	nAns := t.Range(3, 40)
	type ans struct {
		kind  int
		limit int32
	}
	anss := make([]ans, nAns)
	for i := range anss {
		vals := []int32{1, 5, 50, 1 << 20, 0, -1}
		anss[i] = ans{kind: t.Pick([]int{1, 8, 1}), limit: vals[t.Draw(len(vals))]}
	}
	// the wrapper falls back when an answer is an error and follows the server again
	// at the next accept: each such flip swaps in another bucket
	unavail := false
	var flips [][2]int // logical stamps of the start and the end of the SetLimit call that flipped
	sc.Go("answers", func() {
		for _, a := range anss {
			sc.Boundary()
			reqTime++
			switch a.kind {
			case 0:
				flip := !unavail
				unavail = true
				seq++
				s0 := seq
				rf.SetLimit(remote.KgsimAcquireResult("an error on the server", false, 0, reqTime))
				if flip {
					seq++
					flips = append(flips, [2]int{s0, seq})
				}
			case 1:
				flip := unavail
				unavail = false
				seq++
				s0 := seq
				rf.SetLimit(remote.KgsimAcquireResult("", true, a.limit, reqTime))
				if flip {
					seq++
					flips = append(flips, [2]int{s0, seq})
				}
			default:
				rf.SetLimit(remote.KgsimAcquireResult("", false, a.limit, reqTime))
			}
			seq++
			r.Logf("answer kind=%d limit=%d (stamp %d)", a.kind, a.limit, seq)
		}
	})
	nChg := t.Range(1, 3)
	type chg struct{ l, g int32 }
	chgs := make([]chg, nChg)
	for i := range chgs {
		chgs[i].l, chgs[i].g = drawLimits()
	}
	changes := 0
	sc.Go("reconcile", func() {
		for _, c := range chgs {
			sc.Boundary()
			seq++
			nw := &span{seq, -1, c.g, -1}
			hist = append(hist, nw)
			cache.LocalFlowControl().Sync(schema(c.l, c.g))
			rf.Sync(item(c.g))
			seq++
			nw.applied = seq
			for _, h := range hist {
				if h != nw && h.until < 0 {
					h.until = seq // the round that applied the change has completed
				}
			}
			changes++
			r.Logf("limits now local=%d global=%d at %v (stamps %d-%d)", c.l, c.g, now(), nw.from, nw.applied)
		}
	})
	nReq := t.Range(2, 6)
	refused := 0
	for i := 0; i < nReq; i++ {
		i := i
		rounds := t.Range(2, 12)
		sc.Go(fmt.Sprintf("req%d", i), func() {
			for k := 0; k < rounds; k++ {
				sc.Boundary()
				seq++
				cs := seq
				if rf.TryAcquire() {
					seq++
					adm = append(adm, admission{now(), cs, seq})
					r.Logf("req%d admitted at %v (call began at stamp %d, returned at %d)", i, now(), cs, seq)
					rf.Release()
				} else {
					refused++
				}
			}
		})
	}
	for steps := 0; steps < 6000; steps++ {
		el := sc.Eligible()
		if len(el) == 0 {
			alldone := true
			for _, th := range sc.Threads() {
				if !th.Done() {
					alldone = false
				}
			}
			if alldone {
				break
			}
			time.Sleep(350 * time.Millisecond)
			sc.Settle()
			continue
		}
		sc.Resume(el[t.Draw(len(el))])
	}
	for _, th := range sc.Threads() {
		if th.Panic != nil {
			r.Violate("panic", th.PanicTop, "thread %s panicked: %v", th.Name, th.Panic)
			return
		}
		if !th.Done() {
			r.Inconclusive("step budget: " + sc.Describe())
			return
		}
	}
	r.Checked("token_bucket_rate_bound_under_interleaving")
	for i := range adm {
		wStart, wEnd := adm[i].callStart, adm[i].done
		for j := i; j < len(adm); j++ {
			// the window in logical time: from the earliest call start to the latest return
			if adm[j].callStart < wStart {
				wStart = adm[j].callStart
			}
			if adm[j].done > wEnd {
				wEnd = adm[j].done
			}
			var g int32
			extra := 0
			for _, h := range hist {
				if h.from > wEnd || (h.until >= 0 && h.until < wStart) {
					continue
				}
				if h.g > g {
					g = h.g
				}
				// a change whose application overlaps the window swaps the bucket inside it
				if h.from > 0 && (h.applied < 0 || h.applied >= wStart) {
					extra++
				}
			}
			T := (adm[j].at - adm[i].at).Seconds()
			nf := 0
			for _, f := range flips {
				if f[1] >= wStart && f[0] <= wEnd {
					nf++
				}
			}
			strict := float64(g)*float64(1+extra) + float64(g)*T + 1e-6
			withFlips := strict + float64(g)*float64(nf)
			if float64(j-i+1) > withFlips {
				r.Violate("global_rate_exceeded", "tb-count-wrapper-interleaving", "%d requests were admitted within %.3fs (from %v); the loosest global token bucket in force at some moment of that window is qps=burst=%d with %d change(s) of the limits and %d change(s) between failing and answering server inside it: bound %.1f", j-i+1, T, adm[i].at, g, extra, nf, withFlips)
				return
			}
			if float64(j-i+1) > strict {
				// known finding F-C09-2: every change between "server failing" and "server
				// answering" swaps in a fresh, full bucket
				r.Finding("fresh_bucket_per_server_flip", "tb-count-wrapper", "%d requests were admitted within %.3fs under a global token bucket of qps=burst=%d (bound %.1f); the window contains %d change(s) between failing and answering server, each of which handed the instance a fresh bucket", j-i+1, T, g, strict, nf)
			}
		}
	}
	r.ProbeN("admitted", len(adm))
	r.ProbeN("refused", refused)
	r.ProbeN("yields", sc.Yields)
	r.Nontrivial = len(adm) > 0 && sc.Yields > 20
	r.Sample = map[string]interface{}{"local": local, "global": global, "answers": nAns, "changes": nChg, "requests": nReq, "admitted": len(adm)}
}
