package rl

import (
	"fmt"
	"os"
	"strings"
	"time"

	metav1 "k8s.io/apimachinery/pkg/apis/meta/v1"

	proxyv1alpha1 "github.com/kubewharf/kubegateway/pkg/apis/proxy/v1alpha1"
	"github.com/kubewharf/kubegateway/pkg/ratelimiter/limiter"

	"kgsim/sim"
)

// RunC18O: the sweep that reclaims a timed-out instance overlaps, at statement
// granularity, with a last acquire of that instance (count strategy: the call
// records the instance's in-flight count at the server). Afterwards the instance is
// silent for good. Whatever the interleaving, 40 s later nothing may be counted for
// it any more: a survivor that asks for the whole global limit is granted it.
func RunC18O(r *sim.Run) {
	t := r.T
	storeKind := []string{"local", "k8s"}[t.Draw(2)]
	w := NewWorld(r, 1, 1, storeKind, 0)
	defer w.Stop()
	w.Sc.Enabled = func(site string) bool { return strings.HasPrefix(site, "ratelimter.go") }
	w.StartReplica(0)
	const up = "up-a"
	L := int32([]int{3, 10, 20}[t.Draw(3)])
	o := clusterObj(up, []*schemaCfg{{name: "cnt", limit: L}})
	o.Spec.FlowControl.Schemas[0].Strategy = proxyv1alpha1.GlobalCountLimit
	w.PutCluster(o)
	w.Advance(5 * time.Second)
	rp := w.Replicas[0]
	if !w.believesLeader(rp, 0) {
		r.Inconclusive("no leader after 5 s")
		return
	}
	var reqID int64
	acquire := func(inst string, n int32) (accepted bool, err error) {
		reqID++
		acq := &proxyv1alpha1.RateLimitAcquire{ObjectMeta: metav1.ObjectMeta{Name: up}, Spec: proxyv1alpha1.RateLimitAcquireSpec{Instance: inst, RequestID: reqID,
			Requests: []proxyv1alpha1.RateLimitAcquireRequest{{FlowControl: "cnt", Tokens: n}}}}
		res, err := rp.RL.DoAcquire(up, acq)
		if err != nil {
			return false, err
		}
		if len(res.Status.Results) != 1 || res.Status.Results[0].Error != "" {
			return false, fmt.Errorf("result: %+v", res.Status.Results)
		}
		rs := res.Status.Results[0]
		return rs.Accept || rs.Limit == n, nil
	}
	const victim, survivor = "gw-x", "gw-s"
	// both are known; the victim holds a count
	_ = rp.RL.Heartbeat(victim)
	_ = rp.RL.Heartbeat(survivor)
	hbAt := w.Now()
	k := int32(t.Range(1, int(L)))
	if ok, err := acquire(victim, k); err != nil || !ok {
		r.Inconclusive(fmt.Sprintf("first acquire: ok=%v err=%v", ok, err))
		return
	}
	// the victim's heartbeats stop; its entry turns stale (3 s) - the shipped 1 s sweep has
	// not fired yet when the round below begins (it runs on whole seconds of the replica's life)
	for i := 0; i < 7; i++ { // 3.5 s: stale, and the next whole second is still ahead
		w.Advance(500 * time.Millisecond)
		_ = rp.RL.Heartbeat(survivor)
	}
	_ = hbAt
	// one round: the victim's last acquire and the reclamation of the victim, interleaved
	k2 := int32(t.Range(1, int(L)))
	var acqErr error
	acqOK := false
	w.Sc.Go("last-acquire", func() { acqOK, acqErr = acquire(victim, k2) })
	// the sweep's goroutine gets going at a drawn moment of the acquire
	delay := t.Draw(45)
	w.Sc.Go("reclaim", func() {
		for i := 0; i < delay; i++ {
			w.Sc.Boundary()
		}
		limiter.KgsimReclaimInstance(rp.RL, victim)
	})
	for steps := 0; steps < 4000; steps++ {
		el := w.Sc.Eligible()
		if len(el) == 0 {
			break
		}
		th := w.Sc.Pick(el)
		if os.Getenv("KG_C18O_DEBUG") != "" { // debugging aid: the schedule in the trace
			r.Logf("  step %d: %s at %s", steps, th.Name, th.Site())
		}
		w.Sc.Resume(th)
	}
	for _, x := range w.Sc.Threads() {
		if !x.Done() {
			r.Violate("deadlock", "c18o", "threads did not finish: %s", w.Sc.Describe())
			return
		}
		if x.Panic != nil {
			r.Violate("panic", x.PanicTop, "thread %s panicked: %v", x.Name, x.Panic)
			return
		}
	}
	r.Logf("victim held %d; last acquire of %d: ok=%v err=%v; reclaimed meanwhile", k, k2, acqOK, acqErr)
	// the victim is silent for good; the survivor keeps heartbeating
	for i := 0; i < 40; i++ {
		w.Advance(time.Second)
		_ = rp.RL.Heartbeat(survivor)
	}
	r.Checked("nothing_counted_for_a_silent_instance")
	ok, err := acquire(survivor, L)
	if err != nil {
		r.Inconclusive("survivor acquire: " + err.Error())
		return
	}
	if !ok {
		r.Violate("freed_capacity_not_available", storeKind+"/acquire-overlapping-reclaim", "instance %s stopped sending heartbeats, was reclaimed by the sweep while its last acquire (%d in flight, answered ok=%v) was being recorded, and has been silent for 40 s since; yet %s, asking for the whole global limit of %d, is refused: a count is still held for the silent instance", victim, k2, acqOK, survivor, L)
		return
	}
	r.SimSecs = w.Now().Seconds()
	r.ProbeN("yields", w.Sc.Yields)
	r.Nontrivial = true
	r.Sample = map[string]interface{}{"store": storeKind, "limit": L, "held": k, "last_acquire": k2, "last_acquire_ok": acqOK}
}
