// Package rl holds the limiter worlds: rlstub (C09: real gateway limiter stack
// against a byzantine scripted server) and rl (real limiter replicas).
package rl

import (
	"context"
	"encoding/json"
	"fmt"
	"io"
	"math"
	mathrand "math/rand"
	"net/http"
	"sort"
	"strings"
	"sync"
	"testing/synctest"
	"time"

	utilrand "k8s.io/apimachinery/pkg/util/rand"
	"k8s.io/client-go/rest"

	proxyv1alpha1 "github.com/kubewharf/kubegateway/pkg/apis/proxy/v1alpha1"
	"github.com/kubewharf/kubegateway/pkg/flowcontrols"
	"github.com/kubewharf/kubegateway/pkg/flowcontrols/flowcontrol"
	"github.com/kubewharf/kubegateway/pkg/ratelimiter/clientsets"

	"kgsim/sim"
	"kgsim/simnet"
	"kgsim/tape"
)

type c09Schema struct {
	name     string
	tb       bool
	strategy proxyv1alpha1.LimitStrategy
	local    int32 // max or qps
	global   int32
	lburst   int32
	gburst   int32
	// after the global limit was lowered the previous one is tolerated until
	// the gateway has completed a reconcile round that began afterwards (seen
	// from outside: the second allocate answer returned after the change)
	graceOld  int32
	graceFrom int
	// token buckets: every set of limits with the span of time during which
	// admitting at that set is acceptable (from its configuration until the
	// gateway has completed a reconcile round that began after the next change)
	tbHist []*tbLimits
}

type tbLimits struct {
	from, until    time.Duration // until < 0: still acceptable
	gq, gb, lq, lb int32
	closeFrom      int // allocReturned when the next change was made (-1: no next change yet)
}

type scriptState struct {
	mu        sync.Mutex
	ready     bool // heartbeat answers 200
	leader    bool // server-info names a leader
	honest    bool // recovery phase
	honestQ   map[string]int32
	sticky    bool // a stale server: repeats its previous answer for each schema
	last      map[string][2]int32
	allocSeen int
	acqSeen   int
	draw      func(n int) int // keyed sub-streams, see drawK
	drawK     func(key string, n int) int
	schemas   map[string]*c09Schema
	run       *sim.Run
}

var byzVals = func(local, global int32) []int32 {
	return []int32{0, -1, -5, 1, local, global, global + 1, global * 5, math.MaxInt32, math.MinInt32, local + 1, global - 1}
}

// ServeHTTP is the byzantine limiter server.
func (s *scriptState) ServeHTTP(w http.ResponseWriter, r *http.Request) {
	body, _ := io.ReadAll(r.Body)
	s.mu.Lock()
	defer s.mu.Unlock()
	path := r.URL.Path
	switch {
	case strings.HasSuffix(path, "/ratelimit/endpoints"):
		info := proxyv1alpha1.RateLimitServerInfo{Server: "http://rl-0:8443", ID: "stub", ShardCount: 1}
		if s.leader {
			info.Endpoints = []proxyv1alpha1.EndpointInfo{{Leader: "http://rl-0:8443", ShardID: 0}}
		}
		b, _ := json.Marshal(info)
		w.Header().Set("Content-Type", "application/json")
		w.Write(b)
	case strings.HasSuffix(path, "/ratelimit/heartbeat"):
		if !s.ready {
			w.WriteHeader(500)
			return
		}
		w.WriteHeader(200)
	case r.Method == "PUT" && strings.HasSuffix(path, "/status"):
		s.allocSeen++
		var c proxyv1alpha1.RateLimitCondition
		if err := json.Unmarshal(body, &c); err != nil {
			w.WriteHeader(400)
			return
		}
		if !s.honest && s.drawK("alloc500", 6) == 0 {
			s.run.Fault("byzantine_reply")
			w.WriteHeader(500)
			w.Write([]byte(`{"kind":"Status","apiVersion":"v1","status":"Failure","message":"report status error: boom","code":500}`))
			return
		}
		var items []proxyv1alpha1.RateLimitItemConfiguration
		sort.SliceStable(c.Spec.LimitItemConfigurations, func(i, j int) bool {
			return c.Spec.LimitItemConfigurations[i].Name < c.Spec.LimitItemConfigurations[j].Name
		})
		for _, it := range c.Spec.LimitItemConfigurations {
			sc := s.schemas[it.Name]
			if sc == nil {
				continue
			}
			out := proxyv1alpha1.RateLimitItemConfiguration{Name: it.Name, Strategy: it.Strategy}
			var q, b int32
			if s.honest {
				q = s.honestQ[it.Name]
				b = q
				if sc.tb {
					b = int32(math.Ceil(float64(q) / float64(sc.global) * float64(sc.gburst)))
				}
			} else if prev, ok := s.last[it.Name]; ok && s.sticky {
				q, b = prev[0], prev[1]
				s.run.Fault("stale_reply")
			} else {
				vals := byzVals(sc.local, sc.global)
				k := "alloc/" + it.Name
				q = vals[s.drawK(k, len(vals))]
				if s.drawK(k, 3) == 0 {
					// a plausible quota rather than an extreme one
					q = 1 + int32(s.drawK(k, int(sc.global)))
				}
				b = vals[s.drawK(k, len(vals))]
				s.run.Fault("byzantine_reply")
			}
			s.last[it.Name] = [2]int32{q, b}
			if sc.tb {
				out.TokenBucket = &proxyv1alpha1.TokenBucketFlowControlSchema{QPS: q, Burst: b}
			} else {
				out.MaxRequestsInflight = &proxyv1alpha1.MaxRequestsInflightFlowControlSchema{Max: q}
			}
			items = append(items, out)
		}
		c.Spec.LimitItemConfigurations = items
		c.TypeMeta.Kind, c.TypeMeta.APIVersion = "RateLimitCondition", "proxy.kubegateway.io/v1alpha1"
		b, _ := json.Marshal(&c)
		w.Header().Set("Content-Type", "application/json")
		w.Write(b)
	case r.Method == "POST" && strings.HasSuffix(path, "/acquire"):
		s.acqSeen++
		var a proxyv1alpha1.RateLimitAcquire
		if err := json.Unmarshal(body, &a); err != nil {
			w.WriteHeader(400)
			return
		}
		// the gateway lists the schemas in map order
		sort.SliceStable(a.Spec.Requests, func(i, j int) bool { return a.Spec.Requests[i].FlowControl < a.Spec.Requests[j].FlowControl })
		akey := "acq500"
		if len(a.Spec.Requests) > 0 {
			akey += "/" + a.Spec.Requests[0].FlowControl
		}
		if !s.honest && s.drawK(akey, 6) == 0 {
			s.run.Fault("byzantine_reply")
			w.WriteHeader(500)
			w.Write([]byte(`{"message":"acquire failed"}`))
			return
		}
		for _, rq := range a.Spec.Requests {
			sc := s.schemas[rq.FlowControl]
			res := proxyv1alpha1.RateLimitAcquireResult{FlowControl: rq.FlowControl}
			if s.honest || sc == nil {
				res.Accept = true
				res.Limit = rq.Tokens
			} else {
				s.run.Fault("byzantine_reply")
				vals := byzVals(sc.local, sc.global)
				k := "acq/" + rq.FlowControl
				res.Accept = s.drawK(k, 2) == 0
				res.Limit = vals[s.drawK(k, len(vals))]
				switch s.drawK(k, 8) {
				case 0:
					res.Error = "RequestIDTooOld"
				case 1:
					res.Error = "tokens cannot be negative"
				}
			}
			a.Status.Results = append(a.Status.Results, res)
		}
		a.TypeMeta.Kind, a.TypeMeta.APIVersion = "RateLimitAcquire", "proxy.kubegateway.io/v1alpha1"
		b, _ := json.Marshal(&a)
		w.Header().Set("Content-Type", "application/json")
		w.Write(b)
	default:
		w.WriteHeader(404)
	}
}

type admission struct {
	schema string
	via    string // remote | local | default
	at     time.Duration
}

// RunC09 must run inside a bubble.
func RunC09(r *sim.Run) {
	t := r.T
	seed := int64(t.Draw(1 << 30))
	mathrand.Seed(seed)
	utilrand.Seed(seed)
	sc := sim.NewSched(r)
	sc.Quiesce = synctest.Wait
	sc.Enabled = func(string) bool { return false }
	sc.Install()
	defer sc.Uninstall()
	net := simnet.New(sc, r)
	start := time.Now()
	now := func() time.Duration { return time.Since(start) }

	// schemas: local <= global as validation requires
	nS := t.Range(1, 2)
	st := &scriptState{ready: true, leader: true, honestQ: map[string]int32{}, last: map[string][2]int32{}, schemas: map[string]*c09Schema{}, run: r}
	var schemas []*c09Schema
	var spec proxyv1alpha1.FlowControl
	for i := 0; i < nS; i++ {
		s := &c09Schema{name: fmt.Sprintf("s%d", i), tb: t.Draw(3) == 0}
		s.strategy = []proxyv1alpha1.LimitStrategy{proxyv1alpha1.GlobalAllocateLimit, proxyv1alpha1.GlobalCountLimit}[t.Draw(2)]
		s.local = int32(t.Range(1, 4))
		s.global = s.local + int32(t.Range(0, 12))
		fs := proxyv1alpha1.FlowControlSchema{Name: s.name, Strategy: s.strategy}
		if s.tb {
			s.local *= 5
			s.global *= 5
			s.lburst, s.gburst = s.local, s.global
			fs.TokenBucket = &proxyv1alpha1.TokenBucketFlowControlSchema{QPS: s.local, Burst: s.lburst}
			fs.GlobalTokenBucket = &proxyv1alpha1.TokenBucketFlowControlSchema{QPS: s.global, Burst: s.gburst}
		} else {
			fs.MaxRequestsInflight = &proxyv1alpha1.MaxRequestsInflightFlowControlSchema{Max: s.local}
			fs.GlobalMaxRequestsInflight = &proxyv1alpha1.MaxRequestsInflightFlowControlSchema{Max: s.global}
		}
		spec.Schemas = append(spec.Schemas, fs)
		schemas = append(schemas, s)
		st.schemas[s.name] = s
	}
	// the server's coin: its own sub-stream of the tape, pre-drawn (the handler
	// runs in gateway goroutines; drawing there would not be owned by the driver)
	pre := make([]int, 4000)
	for i := range pre {
		pre[i] = t.Draw(1 << 16)
	}
	prei := 0
	st.draw = func(n int) int {
		v := pre[prei%len(pre)]
		prei++
		return v % n
	}
	// one sub-stream per (RPC kind, schema): the gateway sends schemas in map
	// order and may issue RPCs of different schemas in either order; neither
	// may decide which answer a schema gets
	kcnt := map[string]int{}
	st.drawK = func(key string, n int) int {
		v := pre[(int(tape.HashString(key)%uint64(len(pre)))+kcnt[key]*7919)%len(pre)]
		kcnt[key]++
		return v % n
	}
	net.AddNode("rl-0:8443", st)
	for _, s := range schemas {
		if s.tb {
			s.tbHist = []*tbLimits{{from: 0, until: -1, gq: s.global, gb: s.gburst, lq: s.local, lb: s.lburst, closeFrom: -1}}
		}
	}

	ctx, cancel := context.WithCancel(context.Background())
	defer cancel()
	cs := clientsets.NewClientSetsWithRestConfig(ctx, "http://rl-0:8443", "gw", &rest.Config{Transport: net.RoundTripper("gw-0")})
	lim := flowcontrols.NewUpstreamLimiter(ctx, "up1", "", cs)
	lim.Sync(*spec.DeepCopy())
	lim.ResetLimiter(flowcontrol.RemoteFlowControls)
	sc.Settle()

	var mu sync.Mutex
	inflight := map[string]int{} // schema|via
	genIn := map[string]int{}    // schema|via|generation of the server-controlled limiter object
	remoteGen := 0
	var adms []admission
	maxSeen := map[string]int{}
	reqN := 0
	violated := func(class, sig, format string, a ...interface{}) {
		r.Violate(class, sig, format, a...)
	}
	allocReturned := 0
	net.OnServed = func(m *simnet.Msg) {
		// what was asked, without the instance's name (it contains the process id)
		var what []string
		switch m.Kind {
		case "allocate":
			var c proxyv1alpha1.RateLimitCondition
			if json.Unmarshal(m.Body, &c) == nil {
				for _, it := range c.Spec.LimitItemConfigurations {
					q := int32(-1)
					if it.MaxRequestsInflight != nil {
						q = it.MaxRequestsInflight.Max
					} else if it.TokenBucket != nil {
						q = it.TokenBucket.QPS
					}
					what = append(what, fmt.Sprintf("%s=%d", it.Name, q))
				}
				for _, st := range c.Status.LimitItemStatuses {
					what = append(what, fmt.Sprintf("%s.level=%d", st.Name, st.RequestLevel))
				}
			}
		case "acquire":
			var a proxyv1alpha1.RateLimitAcquire
			if json.Unmarshal(m.Body, &a) == nil {
				for _, rq := range a.Spec.Requests {
					what = append(what, fmt.Sprintf("%s:%d", rq.FlowControl, rq.Tokens))
				}
			}
		}
		sort.Strings(what)
		r.Logf("  rpc %s #%d -> %d at %v %v", m.Kind, m.Seq, m.Status, now(), what)
	}
	net.OnReturned = func(m *simnet.Msg) {
		if m.Kind == "allocate" && m.Status == 200 {
			allocReturned++
		}
	}
	// globalBound: the configured global limit, or the previous one while the
	// gateway cannot yet know a server answer to clamp against the new one
	globalBound := func(s *c09Schema) int {
		if s.graceOld > s.global {
			return int(s.graceOld)
		}
		return int(s.global)
	}
	request := func(s *c09Schema, hold time.Duration) {
		reqN++
		id := reqN
		// the admission decision is taken here, in the driver's own order (it
		// never blocks); only the time the request spends upstream runs as a
		// goroutine of its own. No two requests end at the same fake instant,
		// nor at an instant at which one of the system's periodic timers fires.
		hold += time.Duration(id)*time.Microsecond + 137*time.Nanosecond
		func() {
			fc := lim.GetOrDefault(s.name)
			via := "default"
			if cache := lim.AllFlowControls()[s.name]; cache != nil {
				if rf := cache.FlowControl(); rf != nil && interface{}(rf) == interface{}(fc) {
					via = "remote"
				} else if interface{}(cache.LocalFlowControl()) == interface{}(fc) {
					via = "local"
				}
			}
			if !fc.TryAcquire() {
				mu.Lock()
				r.Probe("refused_" + via)
				r.Logf("  #%d %s via %s refused at %v", id, s.name, via, now())
				mu.Unlock()
				return
			}
			mu.Lock()
			k := s.name + "|" + via
			// the server-controlled limiter object is rebuilt when the limiter type is switched
			// off and on: admissions are also counted per generation of that object
			gk := fmt.Sprintf("%s|%s|gen%d", s.name, via, remoteGen)
			genIn[gk]++
			nowGen := genIn[gk]
			inflight[k]++
			r.Logf("  #%d %s via %s admitted at %v (%d in flight there)", id, s.name, via, now(), inflight[k])
			if inflight[k] > maxSeen[k] {
				maxSeen[k] = inflight[k]
			}
			adms = append(adms, admission{s.name, via, now()})
			r.Probe("admitted_" + via)
			nowIn := inflight[k]
			total := inflight[s.name+"|remote"] + inflight[s.name+"|local"]
			nRemote, nLocal := inflight[s.name+"|remote"], inflight[s.name+"|local"]
			gBound, lBound := globalBound(s), int(s.local)
			mu.Unlock()
			if !s.tb {
				switch via {
				case "remote":
					if nowGen > gBound {
						violated("global_limit_exceeded", "maxinflight/"+string(s.strategy), "schema %s (%s, local %d, global %d): %d requests in flight through the server-controlled limiter", s.name, s.strategy, s.local, gBound, nowGen)
					} else if nowIn > gBound {
						// two generations of the server-controlled limiter object (the limiter type was
						// switched off and on while requests were in flight): separate accounting again
						r.Finding("instance_total_exceeds_global", "remote+remote", "schema %s (%s, local %d, global %d): %d requests in flight through server-controlled limiters, %d of them admitted by the current object and the others by the one it replaced when the limiter type was switched off and on (requests admitted by one limiter object are invisible to the other)",
							s.name, s.strategy, s.local, gBound, nowIn, nowGen)
					}
				case "local":
					if nowIn > lBound {
						violated("local_limit_exceeded", "maxinflight", "schema %s: %d requests in flight through the local limiter (limit %d)", s.name, nowIn, s.local)
					}
				case "default":
					violated("unlimited_fallback", "default", "schema %s: request admitted by the default (unlimited) limiter", s.name)
				}
				if total > gBound {
					r.Finding("instance_total_exceeds_global", "remote+local", "schema %s (%s, local %d, global %d): %d requests in flight on this instance: %d admitted by the server-controlled limiter and %d by the local limiter (requests admitted by one limiter object are invisible to the other after a readiness change)",
						s.name, s.strategy, s.local, s.global, total, nRemote, nLocal)
				}
			}
			go func() {
				time.Sleep(hold)
				mu.Lock()
				fc.Release()
				inflight[k]--
				genIn[gk]--
				mu.Unlock()
			}()
		}()
	}

	nSteps := t.Range(20, 120)
	lowered, tbChanges, gateFlaps := 0, 0, 0
	for step := 0; step < nSteps && !r.Violated(); step++ {
		r.Step = step
		// the last weight (limiter type switched off and on) is 0: see DESIGN 12.3, open item
		switch t.Pick([]int{10, 8, 2, 1, 1, 2, 2, 0}) {
		case 7: // the cluster's GlobalRateLimiter feature gate is switched off and on again
			gap := []time.Duration{0, 0, 0, 100 * time.Millisecond}[t.Draw(4)]
			lim.ResetLimiter(flowcontrol.LocalFlowControls)
			if gap > 0 {
				time.Sleep(gap)
			}
			lim.ResetLimiter(flowcontrol.RemoteFlowControls)
			mu.Lock()
			remoteGen++
			mu.Unlock()
			gateFlaps++
			r.Logf("limiter type local, %v later remote again", gap)
		case 0: // a burst of requests
			s := schemas[t.Draw(len(schemas))]
			n := t.Range(1, int(s.global)+4)
			if s.tb {
				n = t.Range(1, 12)
			}
			hold := time.Duration(t.Range(1, 3000)) * time.Millisecond
			for i := 0; i < n; i++ {
				request(s, hold)
			}
			r.Logf("burst %s x%d hold=%v", s.name, n, hold)
		case 1:
			d := []time.Duration{50 * time.Millisecond, 300 * time.Millisecond, time.Second, 2500 * time.Millisecond, 6 * time.Second}[t.Draw(5)]
			time.Sleep(d)
			r.Logf("advance %v", d)
		case 2:
			st.mu.Lock()
			st.ready = !st.ready
			r.Logf("server ready=%v", st.ready)
			st.mu.Unlock()
			r.Fault("readiness_flap")
		case 3:
			st.mu.Lock()
			st.leader = !st.leader
			r.Logf("server names leader=%v", st.leader)
			st.mu.Unlock()
			r.Fault("leader_unknown")
		case 4:
			cut := t.Draw(2) == 0
			net.Partition("gw-0", "rl-0:8443", cut)
			r.Logf("partition=%v", cut)
			r.Fault("partition")
		case 5: // the limits of a max-in-flight schema change
			s := schemas[t.Draw(len(schemas))]
			nl := int32(t.Range(1, 4))
			ng := nl + int32(t.Range(0, 12))
			if s.tb {
				nl, ng = nl*5, ng*5
				st.mu.Lock()
				mu.Lock()
				last := s.tbHist[len(s.tbHist)-1]
				last.closeFrom = allocReturned
				s.tbHist = append(s.tbHist, &tbLimits{from: now(), until: -1, gq: ng, gb: ng, lq: nl, lb: nl, closeFrom: -1})
				s.local, s.global, s.lburst, s.gburst = nl, ng, nl, ng
				tbChanges++
				mu.Unlock()
				st.mu.Unlock()
				spec = *spec.DeepCopy()
				for i := range spec.Schemas {
					if spec.Schemas[i].Name == s.name {
						spec.Schemas[i].TokenBucket = &proxyv1alpha1.TokenBucketFlowControlSchema{QPS: nl, Burst: nl}
						spec.Schemas[i].GlobalTokenBucket = &proxyv1alpha1.TokenBucketFlowControlSchema{QPS: ng, Burst: ng}
					}
				}
				lim.Sync(spec)
				r.Logf("schema %s (token bucket) limits now local=%d global=%d", s.name, nl, ng)
				break
			}
			st.mu.Lock()
			mu.Lock()
			if old := int32(globalBound(s)); ng < old {
				s.graceOld, s.graceFrom = old, allocReturned
				lowered++
			}
			s.local, s.global = nl, ng
			mu.Unlock()
			st.mu.Unlock()
			// a new object, as an informer would deliver it (the limiter keeps the one it was given)
			spec = *spec.DeepCopy()
			for i := range spec.Schemas {
				if spec.Schemas[i].Name == s.name {
					spec.Schemas[i].MaxRequestsInflight = &proxyv1alpha1.MaxRequestsInflightFlowControlSchema{Max: nl}
					spec.Schemas[i].GlobalMaxRequestsInflight = &proxyv1alpha1.MaxRequestsInflightFlowControlSchema{Max: ng}
				}
			}
			lim.Sync(spec)
			r.Logf("schema %s limits now local=%d global=%d", s.name, nl, ng)
		case 6:
			st.mu.Lock()
			st.sticky = !st.sticky
			r.Logf("server repeats its previous answers=%v", st.sticky)
			st.mu.Unlock()
		}
		sc.Settle()
		mu.Lock()
		for _, s := range schemas {
			// the second answer: the first one may belong to a reconcile round that
			// began before the change (its request can wait in the client's own rate
			// limiter), and the count strategy applies a changed limit when a round begins
			for _, h := range s.tbHist {
				if h.until < 0 && h.closeFrom >= 0 && allocReturned >= h.closeFrom+2 {
					h.until = now()
				}
			}
			if s.graceOld > 0 && allocReturned >= s.graceFrom+2 {
				s.graceOld = 0
				r.Probe("lowered_limit_enforced_after_next_answer")
			}
		}
		mu.Unlock()
	}
	if r.Violated() {
		return
	}
	// token bucket windows per limiter object
	for _, s := range schemas {
		if !s.tb {
			continue
		}
		for _, via := range []string{"remote", "local"} {
			var ts []time.Duration
			for _, a := range adms {
				if a.schema == s.name && a.via == via {
					ts = append(ts, a.at)
				}
			}
			sort.Slice(ts, func(i, j int) bool { return ts[i] < ts[j] })
			r.Checked("token_bucket_rate_bound")
			// a reconfiguration (new quota) swaps in a fresh bucket: allow one extra burst per second of window
			for i := 0; i < len(ts); i++ {
				for j := i; j < len(ts); j++ {
					T := (ts[j] - ts[i]).Seconds()
					// the loosest limits acceptable at some moment of the window, one more burst per change in it
					var qps, burst int32
					extra := 0
					for _, h := range s.tbHist {
						if h.from > ts[j] || (h.until >= 0 && h.until < ts[i]) {
							continue
						}
						q, b := h.gq, h.gb
						if via == "local" {
							q, b = h.lq, h.lb
						}
						if q > qps {
							qps = q
						}
						if b > burst {
							burst = b
						}
						if h.from >= ts[i] {
							extra++
						}
					}
					bound := float64(burst)*(1+math.Floor(T/2)+1+float64(extra)) + float64(qps)*T + 1e-6
					if float64(j-i+1) > bound {
						r.Violate("global_rate_exceeded", via+"/"+string(s.strategy), "schema %s (%s, qps %d burst %d via %s): %d admissions within %.3fs", s.name, s.strategy, qps, burst, via, j-i+1, T)
						return
					}
				}
			}
		}
	}

	// ---- recovery: faults stop, the server answers honestly ----------------
	net.Partition("gw-0", "rl-0:8443", false)
	st.mu.Lock()
	st.ready, st.leader, st.honest = true, true, true
	for _, s := range schemas {
		st.honestQ[s.name] = int32(1 + t.Draw(int(s.global)))
	}
	st.mu.Unlock()
	// 3 reconcile periods + heartbeat hysteresis + in-flight requests drain
	time.Sleep(net.TCPTimeout + 6*time.Second + 6*time.Second + 4*time.Second) // a call lost in a partition returns after the TCP timeout; then 3 reconcile periods, heartbeat hysteresis, drain
	sc.Settle()
	for _, s := range schemas {
		if s.tb || s.strategy != proxyv1alpha1.GlobalAllocateLimit {
			continue
		}
		q := st.honestQ[s.name]
		r.Checked("recovery_quota_takes_effect")
		fc := lim.GetOrDefault(s.name)
		got := int32(0)
		var held []flowcontrol.FlowControl
		for i := int32(0); i < q+1; i++ {
			if fc.TryAcquire() {
				got++
				held = append(held, fc)
			}
		}
		for _, h := range held {
			h.Release()
		}
		cache := lim.AllFlowControls()[s.name]
		via := "local"
		if cache != nil && cache.FlowControl() != nil && interface{}(cache.FlowControl()) == interface{}(fc) {
			via = "remote"
		}
		if got != q {
			r.Violate("quota_not_restored", via, "schema %s (local %d, global %d): after the server recovered and answered quota %d, %d of %d concurrent requests were admitted (through the %s limiter: %s)", s.name, s.local, s.global, q, got, q+1, via, fc.String())
			return
		}
	}
	// count strategy, token bucket: the honest server grants every token it is asked for,
	// so a steady stream of requests is admitted at the global rate again, not at the
	// local fall-back rate the instance used while the server was failing. Judged only
	// where the two rates are far apart (global >= 2 * local + 4).
	for _, s := range schemas {
		if !s.tb || s.strategy != proxyv1alpha1.GlobalCountLimit || s.global < 2*s.local+4 {
			continue
		}
		admitted := 0
		for i := 0; i < 500; i++ { // 5 s, one request every 10 ms
			if lim.GetOrDefault(s.name).TryAcquire() {
				admitted++
			}
			time.Sleep(10 * time.Millisecond)
		}
		sc.Settle()
		fallback := int(s.local)*5 + int(s.lburst)
		r.Checked("recovery_rate_takes_effect")
		r.Logf("recovery %s (count, token bucket): %d of 500 requests in 5 s admitted (local qps %d burst %d, global qps %d burst %d)", s.name, admitted, s.local, s.lburst, s.global, s.gburst)
		if admitted <= fallback+2 {
			r.Violate("quota_not_restored", "count-token-bucket", "schema %s (count strategy, token bucket, local qps %d burst %d, global qps %d burst %d): 5 s after the server had recovered and was granting every token asked for, a steady 100 requests/s were admitted %d times in 5 s - what the local fall-back allows (%d), not the global rate", s.name, s.local, s.lburst, s.global, s.gburst, admitted, fallback)
			return
		}
	}
	r.SimSecs = now().Seconds()
	st.mu.Lock()
	r.ProbeN("allocate_rpcs", st.allocSeen)
	r.ProbeN("acquire_rpcs", st.acqSeen)
	st.mu.Unlock()
	r.ProbeN("requests", reqN)
	r.ProbeN("global_limit_lowered", lowered)
	r.ProbeN("token_bucket_limits_changed", tbChanges)
	r.ProbeN("limiter_type_switched_off_and_on", gateFlaps)
	var sample []string
	for _, s := range schemas {
		sample = append(sample, fmt.Sprintf("%s tb=%v %s local=%d global=%d maxInflightSeen(remote)=%d (local)=%d", s.name, s.tb, s.strategy, s.local, s.global, maxSeen[s.name+"|remote"], maxSeen[s.name+"|local"]))
	}
	r.Nontrivial = r.ProbeCount("admitted_remote") > 0 && (r.ProbeCount("admitted_local") > 0 || r.ProbeCount("refused_remote") > 0)
	r.Sample = map[string]interface{}{"schemas": sample, "requests": reqN}
}
