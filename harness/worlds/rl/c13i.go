package rl

import (
	"fmt"
	"sort"
	"strings"
	"time"

	metav1 "k8s.io/apimachinery/pkg/apis/meta/v1"

	proxyv1alpha1 "github.com/kubewharf/kubegateway/pkg/apis/proxy/v1alpha1"
	"github.com/kubewharf/kubegateway/pkg/ratelimiter/limiter"
	"github.com/kubewharf/kubegateway/pkg/ratelimiter/limiter/elector"
	rlutil "github.com/kubewharf/kubegateway/pkg/ratelimiter/util"

	"kgsim/sim"
	"kgsim/simapi"
)

// RunC13I: leadership gains and losses of a shard, the periodic leader check
// and allocate/acquire calls interleave at statement granularity inside one
// limiter server. The lease API is unreachable for the real election loops, so
// the three events client-go's election delivers per shard (started leading,
// stopped leading, new leader observed) come from the driver, through the real
// elector methods and their callbacks into the limiter; per shard they are
// sequential, as one election loop delivers them.
//
// Oracle. (a) After every round and two further, undisturbed leader checks (the
// shipped repair loop runs every second) the server holds an in-memory store
// for exactly the shards it leads: the state of a lost shard is discarded and
// does not come back. (b) A call whose shard is not led at any moment of the
// call is refused.
func RunC13I(r *sim.Run) {
	t := r.T
	shards := t.Range(1, 3)
	storeKind := []string{"local", "k8s"}[t.Draw(2)]
	period := time.Duration(0)
	if storeKind == "k8s" && t.Draw(2) == 0 {
		period = time.Second
	}
	w := NewWorld(r, 1, shards, storeKind, period)
	defer w.Stop()
	w.Sc.Enabled = func(site string) bool {
		return strings.HasPrefix(site, "ratelimter.go") || strings.HasPrefix(site, "leader_elector.go")
	}
	rp := w.Replicas[0]
	w.SetAPICut(rp.Name, true) // the real election loops never get a lease
	w.StartReplica(0)
	ups := []string{"up-a", "up-b", "cluster-3.example.com", "x", "up-e"}[:t.Range(2, 5)]
	for _, u := range ups {
		w.PutCluster(clusterObj(u, []*schemaCfg{{name: "mif", limit: 100}}))
	}
	w.Advance(2 * time.Second)
	el := limiter.KgsimElector(rp.RL)
	const other = "http://rl-9:8443"
	// a List call of the store (Load) can be held: see the gain+lose-during-load event
	var holdList func()
	var holdThread *sim.Thread
	holdShard := -1
	w.Cond.Fault = func(node, verb, name string) int {
		if verb == "list" && holdList != nil && holdThread != nil && w.Sc.Current() == holdThread {
			h := holdList
			holdList = nil
			h()
		}
		return simapi.Proceed
	}
	_ = holdShard

	leads := make([]bool, shards) // ground truth: the last election event of the shard
	storeSet := func() string { return fmt.Sprint(limiter.KgsimStoreShards(rp.RL)) }
	wantSet := func() string {
		var out []int
		for s, l := range leads {
			if l {
				out = append(out, s)
			}
		}
		sort.Ints(out)
		return fmt.Sprint(out)
	}
	drive := func(what string) bool {
		for steps := 0; steps < 6000; steps++ {
			el := w.Sc.Eligible()
			if len(el) == 0 {
				break
			}
			w.Sc.Resume(el[t.Draw(len(el))])
		}
		for _, th := range w.Sc.Threads() {
			if !th.Done() {
				r.Violate("deadlock", "c13i", "%s: threads did not finish: %s", what, w.Sc.Describe())
				return false
			}
			if th.Panic != nil {
				r.Violate("panic", th.PanicTop, "%s: thread %s panicked: %v", what, th.Name, th.Panic)
				return false
			}
		}
		return true
	}

	rounds := t.Range(4, 14)
	events, overlaps, refusedOK, served, lostDuringStart := 0, 0, 0, 0, 0
	for round := 0; round < rounds && !r.Violated(); round++ {
		r.Step = round
		var log []string
		changed := make([]bool, shards)
		nThreads := 0
		// election events, at most one per shard and round
		for s := 0; s < shards; s++ {
			if t.Draw(2) != 0 {
				continue
			}
			s := s
			changed[s] = true
			events++
			nThreads++
			if leads[s] {
				leads[s] = false
				log = append(log, fmt.Sprintf("lose %d", s))
				w.Sc.Go(fmt.Sprintf("r%d-lose%d", round, s), func() { elector.KgsimStopLeading(el, s) })
			} else if t.Draw(4) == 0 {
				log = append(log, fmt.Sprintf("observe-other %d", s))
				w.Sc.Go(fmt.Sprintf("r%d-other%d", round, s), func() { elector.KgsimNewLeader(el, s, other) })
			} else if storeKind == "k8s" && t.Draw(3) == 0 {
				// the lease is lost again while the started-leading callback is still at work:
				// client-go runs that callback in a goroutine of its own, and it loads the
				// shard from an API server that is slow (which is also why the renewals
				// fail). The callback is held inside its List call; the stop event (and,
				// one time in two, the new holder's identity) is delivered meanwhile.
				log = append(log, fmt.Sprintf("gain+lose-during-load %d", s))
				gainDone, listReached, release := false, false, false
				holdShard = s
				holdList = func() {
					listReached = true
					for !release {
						w.Sc.Blocked("held-in-the-list-call-of-Load")
					}
				}
				holdThread = w.Sc.Go(fmt.Sprintf("r%d-gain%d", round, s), func() {
					elector.KgsimNewLeader(el, s, rp.Identity)
					elector.KgsimStartLeading(el, s)
					gainDone = true
				})
				nThreads++
				withOther := t.Draw(2) == 0
				w.Sc.Go(fmt.Sprintf("r%d-lose%d", round, s), func() {
					for !listReached && !gainDone {
						w.Sc.Blocked("waits-for-the-callback-to-reach-Load")
					}
					if listReached && !gainDone {
						lostDuringStart++
					}
					if withOther {
						elector.KgsimNewLeader(el, s, other)
					}
					elector.KgsimStopLeading(el, s)
					release = true
				})
			} else {
				leads[s] = true
				log = append(log, fmt.Sprintf("gain %d", s))
				first := t.Draw(2)
				w.Sc.Go(fmt.Sprintf("r%d-gain%d", round, s), func() {
					// client-go reports the new holder and starts the callback in two goroutines
					if first == 0 {
						elector.KgsimNewLeader(el, s, rp.Identity)
					}
					elector.KgsimStartLeading(el, s)
					if first != 0 {
						elector.KgsimNewLeader(el, s, rp.Identity)
					}
				})
			}
		}
		// the periodic leader check
		if t.Draw(4) != 0 {
			nThreads++
			log = append(log, "leaderCheck")
			w.Sc.Go(fmt.Sprintf("r%d-check", round), func() { limiter.KgsimLeaderCheck(rp.RL) })
		}
		// calls of gateways
		type call struct {
			kind  string
			up    string
			shard int
			err   error
		}
		var calls []*call
		for i := t.Draw(3); i > 0; i-- {
			u := ups[t.Draw(len(ups))]
			c := &call{kind: []string{"allocate", "acquire"}[t.Draw(2)], up: u, shard: rlutil.GetShardID(u, shards)}
			calls = append(calls, c)
			nThreads++
			id := fmt.Sprintf("inst%d", i)
			w.Sc.Go(fmt.Sprintf("r%d-%s-%s", round, c.kind, u), func() {
				if c.kind == "allocate" {
					_, c.err = rp.RL.UpdateRateLimitConditionStatus(u, allocReport(u, id, "mif", 0, false, 0))
				} else {
					acq := &proxyv1alpha1.RateLimitAcquire{ObjectMeta: metav1.ObjectMeta{Name: u}, Spec: proxyv1alpha1.RateLimitAcquireSpec{Instance: id, RequestID: int64(round*10 + i),
						Requests: []proxyv1alpha1.RateLimitAcquireRequest{{FlowControl: "mif", Tokens: 1}}}}
					_, c.err = rp.RL.DoAcquire(u, acq)
				}
			})
		}
		if nThreads > 1 {
			overlaps++
		}
		if !drive(fmt.Sprintf("round %d", round)) {
			return
		}
		for _, c := range calls {
			if c.err == nil {
				served++
			}
			// not led before the round, no election event of the shard in it: never led during the call
			if !leads[c.shard] && !changed[c.shard] {
				r.Checked("call_for_unled_shard_refused")
				if c.err == nil {
					r.Violate("served_without_leadership", c.kind, "round %d: %s for upstream %s (shard %d) succeeded although the server did not lead the shard at any moment of the call", round, c.kind, c.up, c.shard)
					return
				}
				refusedOK++
			}
			log = append(log, fmt.Sprintf("%s %s -> %v", c.kind, c.up, c.err == nil))
		}
		r.Logf("round %d: %s | stores %s leads %s believes %s", round, strings.Join(log, ", "), storeSet(), wantSet(), leadersBrief(rp))
		// settle: two undisturbed leader checks, then the stores are exactly the led shards
		if t.Draw(2) == 0 || round == rounds-1 {
			for k := 0; k < 2; k++ {
				w.Sc.Go(fmt.Sprintf("r%d-settle%d", round, k), func() { limiter.KgsimLeaderCheck(rp.RL) })
				if !drive("settling leader check") {
					return
				}
			}
			r.Checked("stores_are_exactly_the_led_shards")
			if got, want := storeSet(), wantSet(); got != want {
				cls := "state_of_lost_shard_kept"
				if len(got) < len(want) {
					cls = "led_shard_without_store"
				}
				r.Violate(cls, storeKind, "after round %d and two further leader checks the server holds stores for shards %s but leads %s", round, got, want)
				return
			}
		}
		if t.Draw(4) == 0 {
			w.Advance(time.Second) // the shipped periodic loops run too
			r.Logf("advance 1s | stores %s leads %s", storeSet(), wantSet())
		}
	}
	// ---- nothing of a lost shard lives on: every shard still led is lost now (one event
	// after the other, then two leader checks); from then on this server writes nothing to
	// the API any more - a store that was dropped is stopped, also one that was created
	// twice at the moment leadership began
	if !r.Violated() {
		for s := 0; s < shards; s++ {
			if leads[s] {
				leads[s] = false
				s := s
				w.Sc.Go(fmt.Sprintf("final-lose%d", s), func() { elector.KgsimStopLeading(el, s) })
				if !drive("final loss") {
					return
				}
			}
		}
		for k := 0; k < 2; k++ {
			w.Sc.Go(fmt.Sprintf("final-settle%d", k), func() { limiter.KgsimLeaderCheck(rp.RL) })
			if !drive("final leader check") {
				return
			}
		}
		w.Advance(1500 * time.Millisecond) // writes under way end
		before := w.Cond.NWrites()
		w.Advance(3 * time.Second) // three periods of the periodic store
		r.Checked("no_writes_after_every_shard_was_lost")
		if n := w.Cond.NWrites() - before; n > 0 {
			r.Violate("writes_after_leadership_lost", storeKind, "the server lost every shard (and two leader checks ran); in the 3 s that followed it still wrote %d rate-limit conditions to the API: a store of a lost shard is still alive", n)
			return
		}
	}
	r.SimSecs = w.Now().Seconds()
	r.ProbeN("election_events", events)
	r.ProbeN("rounds_with_overlap", overlaps)
	r.ProbeN("calls_served", served)
	r.ProbeN("calls_refused_for_unled_shard", refusedOK)
	r.ProbeN("lease_lost_while_the_started_leading_callback_ran", lostDuringStart)
	r.ProbeN("yields", w.Sc.Yields)
	r.Nontrivial = events >= 2 && overlaps >= 1
	r.Sample = map[string]interface{}{"shards": shards, "store": storeKind + "/" + period.String(), "rounds": rounds, "election_events": events, "served": served}
}
