package rl

import (
	"context"
	"fmt"
	"sort"
	"strings"
	"time"

	metav1 "k8s.io/apimachinery/pkg/apis/meta/v1"

	proxyv1alpha1 "github.com/kubewharf/kubegateway/pkg/apis/proxy/v1alpha1"
	"github.com/kubewharf/kubegateway/pkg/apis/proxy/v1alpha1/validation"

	"kgsim/sim"
	"kgsim/simapi"
)

// c16lSchema draws one flow-control schema from member combinations and values
// around the validator's boundaries; the real validator decides whether the
// object may be stored at all.
func c16lSchema(t interface{ Draw(int) int }, name string) proxyv1alpha1.FlowControlSchema {
	vals := []int32{-1, 0, 1, 2, 10, 100, 5000}
	v := func() int32 { return vals[t.Draw(len(vals))] }
	s := proxyv1alpha1.FlowControlSchema{Name: name}
	if t.Draw(10) < 7 {
		// a plausible shape: one type, optionally its global member and a strategy
		// that fits; values around the boundaries (the validator still decides)
		pos := []int32{0, 1, 2, 10, 100, 5000}
		local := pos[t.Draw(len(pos))]
		global := local + pos[t.Draw(len(pos))]
		withGlobal := t.Draw(3) != 0
		if withGlobal {
			s.Strategy = []proxyv1alpha1.LimitStrategy{proxyv1alpha1.GlobalAllocateLimit, proxyv1alpha1.GlobalCountLimit, proxyv1alpha1.LocalLimit, ""}[t.Draw(4)]
		} else {
			s.Strategy = []proxyv1alpha1.LimitStrategy{"", proxyv1alpha1.LocalLimit, proxyv1alpha1.GlobalAllocateLimit}[t.Draw(3)]
		}
		if t.Draw(2) == 0 {
			s.MaxRequestsInflight = &proxyv1alpha1.MaxRequestsInflightFlowControlSchema{Max: local}
			if withGlobal {
				s.GlobalMaxRequestsInflight = &proxyv1alpha1.MaxRequestsInflightFlowControlSchema{Max: global}
			}
		} else {
			s.TokenBucket = &proxyv1alpha1.TokenBucketFlowControlSchema{QPS: local, Burst: local + pos[t.Draw(len(pos))]}
			if withGlobal {
				s.GlobalTokenBucket = &proxyv1alpha1.TokenBucketFlowControlSchema{QPS: global, Burst: global + pos[t.Draw(len(pos))]}
			}
		}
		return s
	}
	s.Strategy = []proxyv1alpha1.LimitStrategy{"", proxyv1alpha1.LocalLimit, proxyv1alpha1.GlobalAllocateLimit, proxyv1alpha1.GlobalCountLimit, "bogus"}[t.Draw(5)]
	members := t.Draw(32)
	if members&1 != 0 {
		s.MaxRequestsInflight = &proxyv1alpha1.MaxRequestsInflightFlowControlSchema{Max: v()}
	}
	if members&2 != 0 {
		s.GlobalMaxRequestsInflight = &proxyv1alpha1.MaxRequestsInflightFlowControlSchema{Max: v()}
	}
	if members&4 != 0 {
		s.TokenBucket = &proxyv1alpha1.TokenBucketFlowControlSchema{QPS: v(), Burst: v()}
	}
	if members&8 != 0 {
		s.GlobalTokenBucket = &proxyv1alpha1.TokenBucketFlowControlSchema{QPS: v(), Burst: v()}
	}
	if members&16 != 0 && t.Draw(3) == 0 {
		s.Exempt = &proxyv1alpha1.ExemptFlowControlSchema{}
	}
	return s
}

func stateBrief(c *proxyv1alpha1.RateLimitCondition) string {
	var parts []string
	for _, it := range c.Spec.LimitItemConfigurations {
		switch {
		case it.MaxRequestsInflight != nil:
			parts = append(parts, fmt.Sprintf("%s:max=%d", it.Name, it.MaxRequestsInflight.Max))
		case it.TokenBucket != nil:
			parts = append(parts, fmt.Sprintf("%s:qps=%d/%d", it.Name, it.TokenBucket.QPS, it.TokenBucket.Burst))
		}
		// an item without a limit stands for a schema that has no global limit
	}
	sort.Strings(parts)
	return strings.Join(parts, " ")
}

// wantState: what the latest object means for the <upstream>.state record
// (global limits of the schemas that have one).
func wantState(o *proxyv1alpha1.UpstreamCluster) string {
	var parts []string
	for _, s := range o.Spec.FlowControl.Schemas {
		switch {
		case s.GlobalMaxRequestsInflight != nil:
			parts = append(parts, fmt.Sprintf("%s:max=%d", s.Name, s.GlobalMaxRequestsInflight.Max))
		case s.GlobalTokenBucket != nil:
			parts = append(parts, fmt.Sprintf("%s:qps=%d/%d", s.Name, s.GlobalTokenBucket.QPS, s.GlobalTokenBucket.Burst))
		}
	}
	sort.Strings(parts)
	return strings.Join(parts, " ")
}

// RunC16L: every object that passes validation can be applied by the limiter
// server - also when its store met API faults while an earlier version was
// being applied: once the faults stop the latest valid object is in effect
// within the handler's retry period and reports are answered again.
func RunC16L(r *sim.Run) {
	t := r.T
	storeKind := []string{"k8s", "k8s", "local"}[t.Draw(3)]
	period := time.Duration(0)
	if storeKind == "k8s" && t.Draw(3) == 0 {
		period = time.Second
	}
	faults := !strings.Contains(r.Profile, "nofault")
	w := NewWorld(r, 1, t.Range(1, 2), storeKind, period)
	defer w.Stop()
	apiDown := false
	w.Cond.Fault = func(node, verb, name string) int {
		if apiDown {
			r.Fault("api_transient")
			return simapi.ErrTransient
		}
		return simapi.Proceed
	}
	w.StartReplica(0)
	rp := w.Replicas[0]
	w.Advance(4 * time.Second)

	ups := []string{"up-a", "up-b", "up-c"}[:t.Range(1, 3)]
	latest := map[string]*proxyv1alpha1.UpstreamCluster{}
	stored, refused := 0, 0
	put := func(u string) {
		o := clusterObj(u, nil)
		names := []string{"fc-a", "fc-b", "fc-c"}
		for i := t.Range(0, 3); i > 0; i-- {
			n := names[i-1]
			if t.Draw(12) == 0 {
				n = names[0] // now and then a duplicate name
			}
			o.Spec.FlowControl.Schemas = append(o.Spec.FlowControl.Schemas, c16lSchema(t, n))
		}
		proxyv1alpha1.SetDefaults_UpstreamCluster(o) // what the API server does before validating
		if errs := validation.ValidateUpstreamCluster(o); len(errs) > 0 {
			refused++
			r.Logf("%s: refused by validation (%d errors): %s", u, len(errs), firstWords(errs.ToAggregate().Error()))
			return
		}
		stored++
		w.PutCluster(o)
		latest[u] = o
		r.Logf("%s: stored, means state %q", u, wantState(o))
	}
	for _, u := range ups {
		put(u)
	}
	w.Advance(2 * time.Second)
	cl := w.directClient("probe", rp)
	// an instance reports for every schema of the latest object that is allocated by the
	// server, in the schema's current type (conditions of other instances, stored under
	// an earlier version, may still carry the old type)
	reportAs := func(u, inst string) (bool, string) {
		o := latest[u]
		if o == nil {
			return false, "no object"
		}
		cond := &proxyv1alpha1.RateLimitCondition{ObjectMeta: metav1.ObjectMeta{Name: condName(u, inst)},
			Spec: proxyv1alpha1.RateLimitSpec{UpstreamCluster: u, Instance: inst}}
		for _, s := range o.Spec.FlowControl.Schemas {
			if s.Strategy != proxyv1alpha1.GlobalAllocateLimit {
				continue
			}
			item := proxyv1alpha1.RateLimitItemConfiguration{Name: s.Name, Strategy: proxyv1alpha1.GlobalAllocateLimit}
			st := proxyv1alpha1.RateLimitItemStatus{Name: s.Name}
			switch {
			case s.GlobalMaxRequestsInflight != nil:
				st.MaxRequestsInflight = &proxyv1alpha1.MaxRequestsInflightFlowControlSchema{Max: 1}
			case s.GlobalTokenBucket != nil:
				st.TokenBucket = &proxyv1alpha1.TokenBucketFlowControlSchema{QPS: 1, Burst: 1}
			default:
				continue
			}
			cond.Spec.LimitItemConfigurations = append(cond.Spec.LimitItemConfigurations, item)
			cond.Status.LimitItemStatuses = append(cond.Status.LimitItemStatuses, st)
		}
		if len(cond.Spec.LimitItemConfigurations) == 0 {
			return false, "no allocate schema"
		}
		_ = rp.RL.Heartbeat(inst)
		ctx, cancel := context.WithTimeout(context.Background(), 3*time.Second)
		defer cancel()
		_, err := cl.ProxyV1alpha1().RateLimitConditions().UpdateStatus(ctx, cond, metav1.UpdateOptions{})
		w.Sc.Settle()
		if err != nil {
			return false, firstWords(err.Error())
		}
		return true, ""
	}
	report := func(u string) (bool, string) { return reportAs(u, []string{"inst0", "inst1"}[t.Draw(2)]) }
	_ = rp.RL.Heartbeat("inst0")
	nSteps := t.Range(8, 40)
	downs := 0
	for step := 0; step < nSteps; step++ {
		r.Step = step
		weights := []int{8, 5, 0, 3}
		if faults {
			weights[2] = 3
		}
		switch t.Pick(weights) {
		case 0:
			put(ups[t.Draw(len(ups))])
		case 1:
			d := []time.Duration{100 * time.Millisecond, time.Second, 3 * time.Second, 6 * time.Second}[t.Draw(4)]
			w.Advance(d)
			r.Logf("advance %v", d)
		case 2:
			apiDown = !apiDown
			if apiDown {
				downs++
			}
			r.Logf("condition API down=%v", apiDown)
		case 3:
			_ = rp.RL.Heartbeat("inst0")
			u := ups[t.Draw(len(ups))]
			ok, why := report(u)
			r.Logf("report %s -> answered=%v %s", u, ok, why)
		}
	}
	// ---- faults stop -------------------------------------------------------
	apiDown = false
	r.Logf("faults stop")
	// handler retries every 5 s; three periods and some slack
	for i := 0; i < 4; i++ {
		w.Advance(5 * time.Second)
		_ = rp.RL.Heartbeat("inst0")
	}
	if !w.believesLeader(rp, 0) {
		r.Inconclusive("replica does not lead after the faults stopped")
		return
	}
	applied := 0
	for _, u := range ups {
		o := latest[u]
		if o == nil {
			continue
		}
		r.Checked("latest_valid_object_applied_after_faults_stop")
		st, err := rp.RL.GetUpstreamStatus(u)
		if err != nil {
			r.Violate("valid_object_not_applied", "no-state/"+storeKind, "upstream %s: 20 s after the faults stopped the limiter has no state for the latest valid object: %v", u, firstWords(err.Error()))
			return
		}
		if got, want := stateBrief(st), wantState(o); got != want {
			r.Violate("valid_object_not_applied", "stale-state/"+storeKind, "upstream %s: 20 s after the faults stopped the limiter's state is %q, the latest valid object means %q", u, got, want)
			return
		}
		applied++
		if ok, why := report(u); !ok && why != "no allocate schema" {
			r.Checked("reports_answered_after_faults_stop")
			r.Violate("report_not_answered_after_faults_stopped", storeKind, "upstream %s: 20 s after the faults stopped an instance's report is still not answered: %s", u, why)
			return
		}
	}
	r.SimSecs = w.Now().Seconds()
	r.ProbeN("objects_stored", stored)
	r.ProbeN("objects_refused_by_validation", refused)
	r.ProbeN("api_outages", downs)
	r.ProbeN("upstreams_checked", applied)
	r.Nontrivial = stored >= 2 && applied > 0 && (downs > 0 || !faults)
	r.Sample = map[string]interface{}{"store": storeKind, "store_period": period.String(), "stored": stored, "refused": refused, "api_outages": downs}
}
