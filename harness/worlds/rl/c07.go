package rl

import (
	"context"
	"fmt"
	"math"
	"sort"
	"strings"
	"time"

	apierrors "k8s.io/apimachinery/pkg/api/errors"
	metav1 "k8s.io/apimachinery/pkg/apis/meta/v1"

	proxyv1alpha1 "github.com/kubewharf/kubegateway/pkg/apis/proxy/v1alpha1"
	"github.com/kubewharf/kubegateway/pkg/ratelimiter/limiter"
	rlutil "github.com/kubewharf/kubegateway/pkg/ratelimiter/util"

	"kgsim/sim"
	"kgsim/simapi"
)

type quota struct {
	q, burst int32
	known    bool
}

type schemaCfg struct {
	name   string
	tb     bool
	limit  int32
	gburst int32
}

type honest struct {
	gw   *Gateway
	up   string
	last map[string]quota // schema -> what the server last answered to this instance
}

func condName(up, inst string) string { return rlutil.GenerateRateLimitConditionName(up, inst) }

func clusterObj(name string, schemas []*schemaCfg) *proxyv1alpha1.UpstreamCluster {
	o := &proxyv1alpha1.UpstreamCluster{ObjectMeta: metav1.ObjectMeta{Name: name}}
	o.Spec.Servers = []proxyv1alpha1.UpstreamClusterServer{{Endpoint: "http://10.9.0.1:6443"}}
	o.Spec.DispatchPolicies = []proxyv1alpha1.DispatchPolicy{{Rules: []proxyv1alpha1.DispatchPolicyRule{{Verbs: []string{"*"}, APIGroups: []string{"*"}, Resources: []string{"*"}}}}}
	for _, s := range schemas {
		fs := proxyv1alpha1.FlowControlSchema{Name: s.name, Strategy: proxyv1alpha1.GlobalAllocateLimit}
		if s.tb {
			fs.TokenBucket = &proxyv1alpha1.TokenBucketFlowControlSchema{QPS: 1, Burst: 1}
			fs.GlobalTokenBucket = &proxyv1alpha1.TokenBucketFlowControlSchema{QPS: s.limit, Burst: s.gburst}
		} else {
			fs.MaxRequestsInflight = &proxyv1alpha1.MaxRequestsInflightFlowControlSchema{Max: 1}
			fs.GlobalMaxRequestsInflight = &proxyv1alpha1.MaxRequestsInflightFlowControlSchema{Max: s.limit}
		}
		o.Spec.FlowControl.Schemas = append(o.Spec.FlowControl.Schemas, fs)
	}
	return o
}

// recordedQuotas reads, through the replica's exposed API, what it has on
// record for every given instance of the upstream.
func recordedQuotas(rp *Replica, up string, insts []string, s *schemaCfg) (map[string]int32, error) {
	out := map[string]int32{}
	for _, in := range insts {
		c, err := rp.RL.GetRateLimitCondition(up, condName(up, in))
		if err != nil {
			if apierrors.IsNotFound(err) {
				continue
			}
			return nil, err
		}
		for _, it := range c.Spec.LimitItemConfigurations {
			if it.Name != s.name {
				continue
			}
			if s.tb && it.TokenBucket != nil {
				out[in] = it.TokenBucket.QPS
			} else if !s.tb && it.MaxRequestsInflight != nil {
				out[in] = it.MaxRequestsInflight.Max
			}
		}
	}
	return out, nil
}

// RunC07: the allocation never over-commits.
func RunC07(r *sim.Run) { runC07(r, false) }

// RunC07H: the same honest-report workload and the same oracle with the
// API-backed store (write-through or periodic) and two replicas that crash,
// lose the lease API, and are restarted: the quotas a replica has on record
// after it took a shard over are as binding as the ones it handed out itself.
func RunC07H(r *sim.Run) { runC07(r, true) }

func runC07(r *sim.Run, handover bool) {
	t := r.T
	nRep := t.Range(1, 2)
	shards := []int{1, 2, 3}[t.Draw(3)]
	store, period := "local", time.Duration(0)
	if handover {
		nRep, store = 2, "k8s"
		if t.Draw(3) == 0 {
			period = time.Second
		}
	}
	w := NewWorld(r, nRep, shards, store, period)
	defer w.Stop()
	if handover {
		w.Cond.Fault = func(node, verb, name string) int {
			if w.isDead(node) {
				select {} // a dead process never returns from its call
			}
			return simapi.Proceed
		}
	}
	for i := range w.Replicas {
		w.StartReplica(i)
	}
	if handover {
		w.TrackLeadership()
	}
	limits := []int32{1, 2, 5, 10, 20, 50, 100, 1000, 100000}
	ups := []string{"up-a", "up-b"}[:t.Range(1, 2)]
	cfg := map[string][]*schemaCfg{}
	for _, u := range ups {
		var ss []*schemaCfg
		ss = append(ss, &schemaCfg{name: "mif", limit: limits[t.Draw(len(limits))]})
		if t.Draw(2) == 0 {
			l := limits[t.Draw(len(limits))]
			ss = append(ss, &schemaCfg{name: "tb", tb: true, limit: l, gburst: l + int32(t.Draw(int(l)+1))})
		}
		cfg[u] = ss
		w.PutCluster(clusterObj(u, ss))
	}
	w.Advance(5 * time.Second) // election, informers
	nInst := t.Range(2, 6)
	var insts []*honest
	for i := 0; i < nInst; i++ {
		g := w.AddGateway(fmt.Sprintf("gw%d", i))
		insts = append(insts, &honest{gw: g, up: ups[t.Draw(len(ups))], last: map[string]quota{}})
	}
	w.Advance(3 * time.Second) // server info, heartbeats
	instNames := func(up string) []string {
		var out []string
		for _, in := range insts {
			if in.up == up {
				out = append(out, in.gw.CS.ClientID())
			}
		}
		sort.Strings(out)
		return out
	}

	reports, answered, limitChanges, lowered := 0, 0, 0, 0
	leaderChanges, answeredAfterChange := 0, 0
	prevLeader := map[int]string{}
	weights := []int{14, 2, 3, 1}
	if handover {
		weights = []int{14, 1, 3, 1, 2, 1}
	}
	nSteps := t.Range(20, 80)
	for step := 0; step < nSteps && !r.Violated(); step++ {
		r.Step = step
		if handover {
			for s := 0; s < shards; s++ {
				if ls := w.LeadersOf(s); len(ls) == 1 {
					if prevLeader[s] != "" && prevLeader[s] != ls[0].Name {
						leaderChanges++
					}
					prevLeader[s] = ls[0].Name
				}
			}
		}
		switch t.Pick(weights) {
		case 4: // a replica crashes, or loses / regains the lease API (it stops leading gracefully)
			i := t.Draw(2)
			rp := w.Replicas[i]
			if w.isDead(rp.Name) {
				break
			}
			if t.Draw(2) == 0 {
				if !w.isDead(w.Replicas[1-i].Name) {
					w.Crash(i)
					r.Fault("crash")
					r.Logf("crash %s", rp.Name)
				}
			} else {
				cut := !w.apiCut(rp.Name)
				w.SetAPICut(rp.Name, cut)
				r.Fault("partition")
				r.Logf("lease api cut %s=%v", rp.Name, cut)
			}
			w.Advance([]time.Duration{0, time.Second, 4 * time.Second, 6 * time.Second}[t.Draw(4)])
		case 5: // a dead replica is restarted
			for i, rp := range w.Replicas {
				if w.isDead(rp.Name) {
					w.SetAPICut(rp.Name, false)
					w.StartReplica(i)
					r.Fault("restart")
					r.Logf("restart %s", rp.Name)
					break
				}
			}
		case 0: // an honest report
			in := insts[t.Draw(len(insts))]
			if !in.gw.Alive {
				break
			}
			reports++
			ss := cfg[in.up]
			id := in.gw.CS.ClientID()
			lid := in.gw.Name // the client id contains the pid: never logged
			cond := &proxyv1alpha1.RateLimitCondition{ObjectMeta: metav1.ObjectMeta{Name: condName(in.up, id)},
				Spec: proxyv1alpha1.RateLimitSpec{UpstreamCluster: in.up, Instance: id}}
			used := map[string]int32{}
			for _, s := range ss {
				item := proxyv1alpha1.RateLimitItemConfiguration{Name: s.name, Strategy: proxyv1alpha1.GlobalAllocateLimit}
				st := proxyv1alpha1.RateLimitItemStatus{Name: s.name}
				cur := in.last[s.name]
				var u int32
				if cur.known && cur.q > 0 {
					// usage between 0 and a bit above the current quota
					u = int32(t.Draw(int(math.Min(float64(cur.q)*1.3+2, 200000))))
					st.RequestLevel = int32(math.Floor(100 * float64(u) / float64(cur.q)))
				}
				used[s.name] = u
				if s.tb {
					if cur.known {
						item.TokenBucket = &proxyv1alpha1.TokenBucketFlowControlSchema{QPS: cur.q, Burst: cur.burst}
					}
					st.TokenBucket = &proxyv1alpha1.TokenBucketFlowControlSchema{QPS: u, Burst: u}
				} else {
					if cur.known {
						item.MaxRequestsInflight = &proxyv1alpha1.MaxRequestsInflightFlowControlSchema{Max: cur.q}
					}
					st.MaxRequestsInflight = &proxyv1alpha1.MaxRequestsInflightFlowControlSchema{Max: u}
				}
				cond.Spec.LimitItemConfigurations = append(cond.Spec.LimitItemConfigurations, item)
				cond.Status.LimitItemStatuses = append(cond.Status.LimitItemStatuses, st)
			}
			shard := rlutil.GetShardID(in.up, w.Shards)
			leaders := w.LeadersOf(shard)
			var before map[string]map[string]int32
			if len(leaders) == 1 {
				before = map[string]map[string]int32{}
				for _, s := range ss {
					m, err := recordedQuotas(leaders[0], in.up, instNames(in.up), s)
					if err == nil {
						before[s.name] = m
					}
				}
			}
			client, err := in.gw.CS.ClientFor(in.up)
			if err != nil {
				r.Logf("report %s/%s: no client: %v", in.up, lid, err)
				break
			}
			ctx, cancel := context.WithTimeout(context.Background(), 5*time.Second)
			ans, err := client.ProxyV1alpha1().RateLimitConditions().UpdateStatus(ctx, cond, metav1.UpdateOptions{})
			cancel()
			w.Sc.Settle()
			if err != nil {
				r.Logf("report %s/%s: error: %s", in.up, lid, firstWords(strings.ReplaceAll(err.Error(), id, lid)))
				break
			}
			answered++
			if leaderChanges > 0 {
				answeredAfterChange++
			}
			var parts []string
			for _, s := range ss {
				var q, b int32
				found := false
				for _, it := range ans.Spec.LimitItemConfigurations {
					if it.Name != s.name {
						continue
					}
					if s.tb && it.TokenBucket != nil {
						q, b, found = it.TokenBucket.QPS, it.TokenBucket.Burst, true
					} else if !s.tb && it.MaxRequestsInflight != nil {
						q, found = it.MaxRequestsInflight.Max, true
					}
				}
				if !found {
					parts = append(parts, s.name+"=<none>")
					continue
				}
				prev := in.last[s.name]
				in.last[s.name] = quota{q: q, burst: b, known: true}
				parts = append(parts, fmt.Sprintf("%s: used=%d prev=%d -> %d", s.name, used[s.name], prev.q, q))
				L := s.limit
				r.Checked("quota_within_1_and_limit")
				if q < 1 || q > L {
					r.Violate("quota_out_of_range", rangeSig(q, L), "upstream %s schema %s (limit %d): instance %s reporting used=%d with previous quota %d was answered quota %d (must be between 1 and the limit)", in.up, s.name, L, id, used[s.name], prev.q, q)
					return
				}
				if s.tb {
					r.Checked("burst_scaled")
					wantB := int32(math.Ceil(float64(q) / float64(L) * float64(s.gburst)))
					if b > s.gburst || b != wantB {
						r.Violate("burst_not_scaled", "tb", "upstream %s schema %s (qps limit %d, burst %d): quota %d answered with burst %d, expected %d", in.up, s.name, L, s.gburst, q, b, wantB)
						return
					}
				}
				if before == nil || len(w.LeadersOf(shard)) != 1 || w.LeadersOf(shard)[0] != leaders[0] {
					continue
				}
				bm := before[s.name]
				var S int64
				for _, v := range bm {
					S += int64(v)
				}
				after, err := recordedQuotas(leaders[0], in.up, instNames(in.up), s)
				if err != nil {
					continue
				}
				if S <= int64(L) {
					r.Checked("sum_stays_within_limit")
					var sum int64
					for _, v := range after {
						if v > 1 {
							sum += int64(v)
						}
					}
					if sum > int64(L) {
						sig := "growth"
						if !prev.known {
							sig = "newcomer"
						} else if _, had := bm[id]; !had {
							sig = "returning-after-reclaim"
						}
						r.Violate("over_committed", sig, "upstream %s schema %s (limit %d): recorded quotas summed to %d before instance %s (previous quota %d, used %d) was answered %d; afterwards the recorded quotas above 1 sum to %d: %v", in.up, s.name, L, S, id, prev.q, used[s.name], q, sum, after)
						return
					}
				} else if prev.known {
					// "no quota grows": neither beyond what the instance held nor beyond what
					// was on record for it (the two differ after a lost answer)
					base := prev.q
					if rec, ok := bm[id]; ok && rec > base {
						base = rec
					}
					r.Checked("no_growth_when_over_limit")
					if q > base {
						r.Violate("quota_grew_while_over_limit", "c07", "upstream %s schema %s (limit %d): recorded quotas summed to %d (> limit) yet instance %s grew from %d (on record: %d) to %d", in.up, s.name, L, S, id, prev.q, bm[id], q)
						return
					}
				}
			}
			r.Logf("report %s/%s: %s", in.up, lid, strings.Join(parts, "; "))
		case 1: // limit change through the real upstream controller
			u := ups[t.Draw(len(ups))]
			s := cfg[u][t.Draw(len(cfg[u]))]
			old := s.limit
			s.limit = limits[t.Draw(len(limits))]
			if s.tb {
				s.gburst = s.limit + int32(t.Draw(int(s.limit)+1))
			}
			if s.limit < old {
				lowered++
			}
			limitChanges++
			w.PutCluster(clusterObj(u, cfg[u]))
			r.Logf("limit %s/%s: %d -> %d", u, s.name, old, s.limit)
		case 2:
			d := []time.Duration{500 * time.Millisecond, time.Second, 2 * time.Second}[t.Draw(3)]
			w.Advance(d)
			r.Logf("advance %v", d)
		case 3: // an instance goes silent for good, a new one joins
			in := insts[t.Draw(len(insts))]
			if in.gw.Alive && t.Draw(2) == 0 {
				in.gw.Stop()
				r.Logf("instance %s stops", in.gw.Name)
			} else {
				g := w.AddGateway(fmt.Sprintf("gw%d", len(w.Gateways)))
				insts = append(insts, &honest{gw: g, up: ups[t.Draw(len(ups))], last: map[string]quota{}})
				w.Advance(2500 * time.Millisecond)
				r.Logf("instance %s joins", g.Name)
			}
		}
	}
	r.SimSecs = w.Now().Seconds()
	r.ProbeN("reports", reports)
	r.ProbeN("reports_answered", answered)
	r.ProbeN("limit_changes", limitChanges)
	r.ProbeN("limit_lowered", lowered)
	r.Nontrivial = answered >= 5 && nInst >= 2
	sample := map[string]interface{}{"replicas": nRep, "shards": shards, "instances": len(insts), "reports": reports, "answered": answered, "limit_changes": limitChanges}
	r.Sample = sample
	if handover {
		r.ProbeN("leader_changes", leaderChanges)
		r.ProbeN("reports_answered_after_a_leader_change", answeredAfterChange)
		r.Nontrivial = r.Nontrivial && answeredAfterChange > 0
		sample["store"] = "k8s/" + period.String()
		sample["leader_changes"] = leaderChanges
	}
}

func rangeSig(q, L int32) string {
	switch {
	case q < 0:
		return "negative"
	case q == 0:
		return "zero"
	case q > L:
		return "above-limit"
	}
	return "?"
}

func firstWords(s string) string {
	s = strings.ReplaceAll(s, "\n", " ")
	if len(s) > 140 {
		s = s[:140]
	}
	return s
}

// RunC07Overlap: two or three honest reports (and a limit change) overlap at
// statement granularity inside UpdateRateLimitConditionStatus.
func RunC07Overlap(r *sim.Run) {
	t := r.T
	storeKind := []string{"local", "k8s"}[t.Draw(2)]
	w := NewWorld(r, 1, 1, storeKind, 0)
	defer w.Stop()
	w.Sc.Enabled = func(site string) bool { return strings.HasPrefix(site, "ratelimter.go") }
	w.StartReplica(0)
	const up = "up-a"
	L := []int32{10, 50, 100, 1000}[t.Draw(4)]
	s := &schemaCfg{name: "mif", limit: L}
	w.PutCluster(clusterObj(up, []*schemaCfg{s}))
	w.Advance(5 * time.Second)
	rp := w.Replicas[0]
	if !w.believesLeader(rp, 0) {
		r.Inconclusive("no leader after 5 s")
		return
	}
	nInst := t.Range(2, 4)
	type oinst struct {
		id   string
		last quota
	}
	var insts []*oinst
	for i := 0; i < nInst; i++ {
		id := fmt.Sprintf("inst%d", i)
		insts = append(insts, &oinst{id: id})
		_ = rp.RL.Heartbeat(id)
	}
	ids := func() []string {
		var out []string
		for _, in := range insts {
			out = append(out, in.id)
		}
		return out
	}
	// one run in two starts with the pool handed out: every instance reports, one after
	// the other, that it uses all it has, until nobody grows any more - the rounds
	// below then happen at the limit, where over-commitment shows
	if t.Draw(2) == 0 {
		for k, still := 0, 0; k < 60 && still < len(insts); k++ {
			in := insts[k%len(insts)]
			_ = rp.RL.Heartbeat(in.id)
			used := in.last.q
			if used < 1 {
				used = 1
			}
			ans, err := rp.RL.UpdateRateLimitConditionStatus(up, allocReport(up, in.id, "mif", in.last.q, in.last.known, used))
			if err != nil {
				break
			}
			q := in.last.q
			for _, it := range ans.Spec.LimitItemConfigurations {
				if it.Name == "mif" && it.MaxRequestsInflight != nil {
					q = it.MaxRequestsInflight.Max
				}
			}
			if q == in.last.q && in.last.known {
				still++
			} else {
				still = 0
			}
			in.last = quota{q: q, known: true}
		}
		r.Probe("pool_handed_out_before_the_rounds")
	}
	rounds := t.Range(3, 12)
	overlapped, limitChanges, reclaims := 0, 0, 0
	for round := 0; round < rounds && !r.Violated(); round++ {
		r.Step = round
		for _, in := range insts {
			_ = rp.RL.Heartbeat(in.id) // keep them known (fake time barely moves)
		}
		before, err := recordedQuotas(rp, up, ids(), s)
		if err != nil {
			r.Inconclusive("read back: " + err.Error())
			return
		}
		var S int64
		for _, v := range before {
			S += int64(v)
		}
		// choose the instances that report in this round (distinct)
		k := t.Range(1, len(insts))
		perm := append([]*oinst(nil), insts...)
		for i := len(perm) - 1; i > 0; i-- {
			j := t.Draw(i + 1)
			perm[i], perm[j] = perm[j], perm[i]
		}
		chosen := perm[:k]
		type res struct {
			in   *oinst
			q    int32
			used int32
			err  error
		}
		results := make([]*res, len(chosen))
		for ci, in := range chosen {
			ci, in := ci, in
			used := int32(0)
			if in.last.known && in.last.q > 0 {
				used = int32(t.Draw(int(math.Min(float64(in.last.q)*1.3+2, 5000))))
			}
			results[ci] = &res{in: in, used: used}
			w.Sc.Go(fmt.Sprintf("r%d-%s", round, in.id), func() {
				ans, err := rp.RL.UpdateRateLimitConditionStatus(up, allocReport(up, in.id, "mif", in.last.q, in.last.known, used))
				results[ci].err = err
				if err == nil {
					for _, it := range ans.Spec.LimitItemConfigurations {
						if it.Name == "mif" && it.MaxRequestsInflight != nil {
							results[ci].q = it.MaxRequestsInflight.Max
						}
					}
				}
			})
		}
		// one round in three the limit changes while the reports are in flight
		// (the upstream controller's worker calls the handler with the new object)
		Lold := L
		reclaimed := ""
		if t.Draw(3) == 0 {
			L = []int32{10, 50, 100, 1000, Lold / 2, Lold * 2}[t.Draw(6)]
			if L < 1 {
				L = 1
			}
			s.limit = L
			newObj := clusterObj(up, []*schemaCfg{s})
			h := rp.RL.(interface {
				UpstreamConditionHandler(*proxyv1alpha1.UpstreamCluster) error
			})
			limitChanges++
			w.Sc.Go(fmt.Sprintf("r%d-limit", round), func() {
				if err := h.UpstreamConditionHandler(newObj); err != nil {
					r.Logf("round %d: limit handler error: %v", round, err)
				}
			})
		}
		// one round in two an instance that does not report in this round is reclaimed
		// meanwhile (its heartbeats have timed out: the 1 s sweep's goroutine); it may come
		// back later, echoing the quota it was last answered
		if len(chosen) < len(insts) && t.Draw(2) == 0 {
			victim := perm[k+t.Draw(len(perm)-k)]
			reclaims++
			th := w.Sc.Go(fmt.Sprintf("r%d-reclaim-%s", round, victim.id), func() {
				limiter.KgsimReclaimInstance(rp.RL, victim.id)
			})
			if t.Draw(4) != 0 {
				// the sweep's goroutine is descheduled once at an arbitrary statement
				th.StallAt, th.StallFor = 1+t.Draw(80), 20+t.Draw(100)
			}
			reclaimed = victim.id
		}
		if k > 1 || L != Lold || reclaimed != "" {
			overlapped++
		}
		// drive only this round's threads to completion under a drawn schedule
		for steps := 0; steps < 3000; steps++ {
			el := w.Sc.Eligible()
			if len(el) == 0 {
				break
			}
			w.Sc.Resume(w.Sc.Pick(el))
		}
		for _, th := range w.Sc.Threads() {
			if !th.Done() {
				r.Violate("deadlock", "c07-overlap", "report threads did not finish: %s", w.Sc.Describe())
				return
			}
			if th.Panic != nil {
				r.Violate("panic", th.PanicTop, "report panicked: %v", th.Panic)
				return
			}
		}
		var parts []string
		for _, rs := range results {
			if rs.err != nil {
				parts = append(parts, fmt.Sprintf("%s: error", rs.in.id))
				continue
			}
			prev := rs.in.last
			rs.in.last = quota{q: rs.q, known: true}
			parts = append(parts, fmt.Sprintf("%s: used=%d prev=%d -> %d", rs.in.id, rs.used, prev.q, rs.q))
			r.Checked("quota_within_1_and_limit")
			// a report that overlapped the limit change may have been answered under either limit
			hi := L
			if Lold > hi {
				hi = Lold
			}
			if rs.q < 1 || rs.q > hi {
				r.Violate("quota_out_of_range", rangeSig(rs.q, hi)+"/overlap/"+storeKind, "store %s, limit %d (before this round %d): instance %s was answered %d", storeKind, L, Lold, rs.in.id, rs.q)
				return
			}
		}
		if reclaimed != "" {
			parts = append(parts, reclaimed+": reclaimed")
		}
		r.Logf("round %d (sum before %d, limit %d -> %d): %s", round, S, Lold, L, strings.Join(parts, "; "))
		after, err := recordedQuotas(rp, up, ids(), s)
		if err != nil {
			continue
		}
		if L != Lold {
			continue // the sum is judged against one limit: from the next round on
		}
		if S <= int64(L) {
			r.Checked("sum_stays_within_limit_under_overlap")
			var sum int64
			for _, v := range after {
				if v > 1 {
					sum += int64(v)
				}
			}
			if sum > int64(L) {
				r.Violate("over_committed", fmt.Sprintf("overlap/%s", storeKind), "limit %d, store %s: recorded quotas summed to %d before %d overlapping honest reports (%s); afterwards the recorded quotas above 1 sum to %d: %v", L, storeKind, S, k, strings.Join(parts, "; "), sum, after)
				return
			}
		}
	}
	r.SimSecs = w.Now().Seconds()
	r.ProbeN("rounds_with_overlap", overlapped)
	r.ProbeN("limit_changes_during_reports", limitChanges)
	r.ProbeN("reclaims_during_reports", reclaims)
	r.ProbeN("yields", w.Sc.Yields)
	r.Nontrivial = overlapped > 0
	r.Sample = map[string]interface{}{"limit": L, "store": storeKind, "instances": nInst, "rounds": rounds, "overlapping_rounds": overlapped}
}
