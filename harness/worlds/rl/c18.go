package rl

import (
	"context"
	"fmt"
	"net/url"
	"sort"
	"strings"
	"time"

	apierrors "k8s.io/apimachinery/pkg/api/errors"
	metav1 "k8s.io/apimachinery/pkg/apis/meta/v1"

	proxyv1alpha1 "github.com/kubewharf/kubegateway/pkg/apis/proxy/v1alpha1"

	"kgsim/sim"
	"kgsim/simnet"
)

type c18Inst struct {
	gw       *Gateway
	id       string
	quota    quota
	count    int32 // last accepted in-flight count (count strategy)
	reqID    int64
	silent   bool
	silentAt time.Duration
	hadCond  bool
	reportAt time.Duration              // last successful allocate report
	hb       map[string][]time.Duration // replica -> heartbeat arrival times
}

// RunC18: dead instances are reclaimed, live ones left alone.
func RunC18(r *sim.Run) {
	t := r.T
	nRep := t.Range(1, 2)
	storeKind := []string{"local", "k8s"}[t.Draw(2)]
	period := time.Duration(0)
	if storeKind == "k8s" && t.Draw(2) == 0 {
		period = time.Second
	}
	w := NewWorld(r, nRep, 1, storeKind, period)
	defer w.Stop()
	for i := range w.Replicas {
		w.StartReplica(i)
	}
	w.TrackLeadership()
	// identities: the operator chooses the prefix (--client-id-prefix); with the
	// in-memory store nothing restricts it
	idStyle := "plain"
	if storeKind == "local" {
		idStyle = []string{"plain", "plain", "plain", "host:port", "long"}[t.Draw(5)]
	}
	w.IDPrefix = func(name string) string {
		switch idStyle {
		case "host:port":
			return "10.0.0." + strings.TrimPrefix(name, "gw") + ":6443"
		case "long":
			return name + "." + strings.Repeat("gateway-pool-a.", 4) // > 63 characters with pid and suffix
		}
		return name
	}
	const up = "up-a"
	Lmif, Lcnt := int32(100), int32(20)
	o := clusterObj(up, []*schemaCfg{{name: "mif", limit: Lmif}, {name: "cnt", limit: Lcnt}})
	o.Spec.FlowControl.Schemas[1].Strategy = proxyv1alpha1.GlobalCountLimit
	w.PutCluster(o)
	w.Advance(5 * time.Second)

	byID := map[string]*c18Inst{}
	w.Net.OnServed = func(m *simnet.Msg) {
		if m.Kind == "heartbeat" && m.Status == 200 {
			q, _ := url.ParseQuery(m.Query)
			if in := byID[q.Get("instance")]; in != nil {
				in.hb[m.To] = append(in.hb[m.To], w.Now())
			}
		}
	}
	var insts []*c18Inst
	// one run in two the instances keep a client for the upstream's leader the way the
	// gateway's reconcile loop does (every 2 s), so a new leader hears from them within
	// seconds of a take-over without any request of the driver
	keepClient := t.Draw(2) == 0
	join := func() *c18Inst {
		g := w.AddGateway(fmt.Sprintf("gw%d", len(w.Gateways)))
		in := &c18Inst{gw: g, id: g.CS.ClientID(), hb: map[string][]time.Duration{}}
		byID[in.id] = in
		insts = append(insts, in)
		if keepClient {
			g.KeepClientFor(up)
		}
		return in
	}
	// ground truth of removals: every delete the simulated API applied, with how long
	// the deleting replica had been leading and what was known about the instance then
	type earlyDelete struct {
		node, inst      string
		ledFor, at      time.Duration
		lastHB          time.Duration
		lastHBAt        string
		silent, hadCond bool
	}
	var earlyDeletes []earlyDelete
	w.Cond.OnDelete = func(node, name string) {
		for _, rp := range w.Replicas {
			if rp.Name != node {
				continue
			}
			for _, in := range insts {
				if condName(up, in.id) != name {
					continue
				}
				e := earlyDelete{node: node, inst: in.gw.Name, ledFor: w.LeadingFor(rp, 0), at: w.Now(), lastHB: -1, silent: in.silent || !in.gw.Alive, hadCond: in.hadCond}
				for srv, hbs := range in.hb {
					if n := len(hbs); n > 0 && hbs[n-1] > e.lastHB {
						e.lastHB, e.lastHBAt = hbs[n-1], srv
					}
				}
				earlyDeletes = append(earlyDeletes, e)
			}
		}
	}
	for i := t.Range(2, 4); i > 0; i-- {
		join()
	}
	w.Advance(3 * time.Second)

	leader := func() *Replica {
		l := w.LeadersOf(0)
		if len(l) == 1 {
			return l[0]
		}
		return nil
	}
	leaderName := func() string {
		if l := leader(); l != nil {
			return l.Name
		}
		return ""
	}
	leaderSince := map[string]time.Duration{}
	report := func(in *c18Inst, used int32) bool {
		client, err := in.gw.CS.ClientFor(up)
		if err != nil {
			return false
		}
		ctx, cancel := context.WithTimeout(context.Background(), 3*time.Second)
		defer cancel()
		ans, err := client.ProxyV1alpha1().RateLimitConditions().UpdateStatus(ctx, allocReport(up, in.id, "mif", in.quota.q, in.quota.known, used), metav1.UpdateOptions{})
		w.Sc.Settle()
		if err != nil {
			return false
		}
		for _, it := range ans.Spec.LimitItemConfigurations {
			if it.Name == "mif" && it.MaxRequestsInflight != nil {
				in.quota = quota{q: it.MaxRequestsInflight.Max, known: true}
			}
		}
		in.hadCond = true
		in.reportAt = w.Now()
		return true
	}
	acquire := func(in *c18Inst, n int32) (bool, bool) {
		client, err := in.gw.CS.ClientFor(up)
		if err != nil {
			return false, false
		}
		in.reqID++
		ctx, cancel := context.WithTimeout(context.Background(), 3*time.Second)
		defer cancel()
		acq := &proxyv1alpha1.RateLimitAcquire{ObjectMeta: metav1.ObjectMeta{Name: up}, Spec: proxyv1alpha1.RateLimitAcquireSpec{Instance: in.id, RequestID: int64(w.Now()) + in.reqID,
			Requests: []proxyv1alpha1.RateLimitAcquireRequest{{FlowControl: "cnt", Tokens: n}}}}
		res, err := client.ProxyV1alpha1().RateLimitConditions().Acquire(ctx, up, acq, metav1.CreateOptions{})
		w.Sc.Settle()
		if err != nil || len(res.Status.Results) != 1 || res.Status.Results[0].Error != "" {
			return false, false
		}
		rs := res.Status.Results[0]
		if rs.Accept || rs.Limit == n {
			in.count = n // recorded (accept=false with limit==n: applied at the limit)
		}
		return true, rs.Accept
	}

	reclaimedChecked, liveChecked, blips := 0, 0, 0
	nSteps := t.Range(25, 90)
	for step := 0; step < nSteps && !r.Violated(); step++ {
		r.Step = step
		weights := []int{8, 6, 6, 3, 2, 2, 0, 2}
		if storeKind == "k8s" {
			weights[6] = 1
		}
		switch t.Pick(weights) {
		case 7: // a short network blip: one of an instance's heartbeats is lost, the next ones arrive again
			in := insts[t.Draw(len(insts))]
			if in.silent || !in.gw.Alive {
				break
			}
			d := time.Duration(t.Range(1050, 1900)) * time.Millisecond
			for _, rp := range w.Replicas {
				w.Net.Partition(in.gw.Name, rp.Name, true)
			}
			w.Advance(d)
			for _, rp := range w.Replicas {
				w.Net.Partition(in.gw.Name, rp.Name, false)
			}
			r.Fault("partition")
			blips++
			r.Logf("instance %s unreachable for %v", in.gw.Name, d)
			w.Advance(time.Duration(t.Range(100, 1500)) * time.Millisecond)
		case 6: // somebody else removes the API object of an instance's condition (kubectl delete, a cleanup job)
			in := insts[t.Draw(len(insts))]
			if w.Cond.DirectDelete(condName(up, in.id)) {
				r.Fault("foreign_delete")
				r.Logf("the API object of %s's condition is deleted out of band", in.gw.Name)
			}
		case 0:
			in := insts[t.Draw(len(insts))]
			if in.silent {
				break
			}
			ok := report(in, int32(t.Draw(int(in.quota.q)+3)))
			r.Logf("report %s ok=%v quota=%d", in.gw.Name, ok, in.quota.q)
		case 1:
			in := insts[t.Draw(len(insts))]
			if in.silent {
				break
			}
			n := int32(t.Draw(6))
			ok, acc := acquire(in, n)
			r.Logf("acquire %s n=%d ok=%v accept=%v", in.gw.Name, n, ok, acc)
		case 2:
			d := []time.Duration{time.Second, 2 * time.Second, 5 * time.Second, 12 * time.Second, 36 * time.Second}[t.Draw(5)]
			w.Advance(d)
			r.Logf("advance %v", d)
		case 3: // an instance goes silent: dies, or is cut off from every replica
			in := insts[t.Draw(len(insts))]
			if in.silent {
				break
			}
			in.silent, in.silentAt = true, w.Now()
			if t.Draw(2) == 0 {
				in.gw.Stop()
				r.Fault("crash")
				r.Logf("instance %s dies", in.gw.Name)
			} else {
				for _, rp := range w.Replicas {
					w.Net.Partition(in.gw.Name, rp.Name, true)
				}
				r.Fault("partition")
				r.Logf("instance %s cut off", in.gw.Name)
			}
		case 4: // comes back: same identity (heal) or a new instance
			var sil []*c18Inst
			for _, in := range insts {
				if in.silent && in.gw.Alive {
					sil = append(sil, in)
				}
			}
			if len(sil) > 0 && t.Draw(2) == 0 {
				in := sil[t.Draw(len(sil))]
				for _, rp := range w.Replicas {
					w.Net.Partition(in.gw.Name, rp.Name, false)
				}
				in.silent = false
				for k := range in.hb {
					in.hb[k] = nil // known anew from its next heartbeat on
				}
				r.Logf("instance %s is back (same identity)", in.gw.Name)
				w.Advance(2500 * time.Millisecond)
			} else {
				in := join()
				if t.Draw(3) == 0 {
					// its first request goes out before its first heartbeat; it may die at once
					w.Advance(time.Duration(t.Range(50, 1200)) * time.Millisecond)
					n := int32(t.Range(1, 5))
					ok, acc := acquire(in, n)
					r.Logf("instance %s joins and acquires n=%d ok=%v accept=%v (heartbeats at the leader so far: %d)", in.gw.Name, n, ok, acc, len(in.hb[leaderName()]))
					if ok && len(in.hb[leaderName()]) == 0 {
						r.Probe("acquire_before_first_heartbeat")
					}
					if t.Draw(2) == 0 {
						in.silent, in.silentAt = true, w.Now()
						in.gw.Stop()
						r.Fault("crash")
						r.Logf("instance %s dies", in.gw.Name)
						break
					}
				}
				w.Advance(2500 * time.Millisecond)
				r.Logf("instance %s joins", in.gw.Name)
			}
		case 5: // leader trouble
			if nRep > 1 && t.Draw(2) == 0 {
				rp := w.Replicas[t.Draw(len(w.Replicas))]
				cut := !w.apiCut(rp.Name)
				w.SetAPICut(rp.Name, cut)
				r.Fault("partition")
				r.Logf("api cut %s=%v", rp.Name, cut)
			}
		}
		// ---- oracle at the boundary ----------------------------------------
		ld := leader()
		now := w.Now()
		for _, rp := range w.Replicas {
			if ld == rp {
				if _, ok := leaderSince[rp.Name]; !ok {
					leaderSince[rp.Name] = now
				}
			} else {
				delete(leaderSince, rp.Name)
			}
		}
		if ld == nil {
			continue
		}
		stable := w.LeadingFor(ld, 0)
		if stable == 0 {
			continue
		}
		for _, in := range insts {
			if !in.hadCond {
				continue
			}
			hbs := in.hb[ld.Name]
			lastHB := time.Duration(-1)
			if len(hbs) > 0 {
				lastHB = hbs[len(hbs)-1]
			}
			_, err := ld.RL.GetRateLimitCondition(up, condName(up, in.id))
			exists := err == nil
			if err != nil && !apierrors.IsNotFound(err) {
				continue
			}
			// dead: silent for longer than both cleanup mechanisms need, leader stable throughout
			if in.silent && now-in.silentAt > 36*time.Second && stable > now-in.silentAt {
				reclaimedChecked++
				r.Checked("dead_instance_reclaimed")
				if exists {
					r.Violate("dead_instance_not_reclaimed", storeKind, "instance %s has been silent for %v (leader %s stable for %v) but its condition is still on record", in.gw.Name, now-in.silentAt, ld.Name, stable)
					break
				}
			}
			// live: heartbeats arriving at this leader with gaps < 3 s since it became known there
			if !in.silent && len(hbs) >= 2 && now-lastHB < 2900*time.Millisecond {
				gapsOK := true
				for i := 1; i < len(hbs); i++ {
					if hbs[i]-hbs[i-1] >= 2900*time.Millisecond {
						gapsOK = false
					}
				}
				knownFor := now - hbs[0]
				// the record must have been (re)made while the instance was known to this leader
				if gapsOK && stable > knownFor && in.reportAt >= hbs[0] {
					liveChecked++
					r.Checked("live_instance_kept")
					if !exists && in.quota.known {
						// was the record made at this leader after the instance became known? (a report is needed)
						r.Violate("live_instance_dropped", storeKind, "instance %s keeps sending heartbeats (%d arrived at leader %s, gaps < 3 s, last %v ago) but its condition is gone", in.gw.Name, len(hbs), ld.Name, now-lastHB)
						break
					}
				}
			}
		}
	}
	if r.Violated() {
		return
	}
	// ---- a leader does not remove what it has just loaded: the record of an instance
	// that is alive, whose heartbeats keep arriving (at whichever replica it knows as
	// leader), may not be deleted by a replica that has led for less than the heartbeat
	// time-out (3 s) - it cannot know yet that the instance has stopped
	for _, e := range earlyDeletes {
		if e.ledFor <= 0 || e.ledFor >= 2500*time.Millisecond || e.silent || e.lastHB < 0 || e.at-e.lastHB >= 2900*time.Millisecond {
			continue
		}
		r.Checked("record_not_removed_right_after_take_over")
		r.Violate("live_instance_dropped", storeKind+"/at-take-over", "replica %s deleted the condition of instance %s at %v, %v after it had begun to lead the shard (heartbeat time-out: 3 s); the instance was alive and its last heartbeat had arrived %v earlier at %s", e.node, e.inst, e.at, e.ledFor.Round(10*time.Millisecond), (e.at - e.lastHB).Round(10*time.Millisecond), e.lastHBAt)
		return
	}
	r.ProbeN("condition_deletes_seen_at_the_api", len(earlyDeletes))
	// ---- freed capacity is available: counted in-flight of reclaimed instances is gone
	for _, rp := range w.Replicas {
		w.SetAPICut(rp.Name, false)
	}
	w.Advance(40 * time.Second)
	ld := leader()
	// ---- freed quota is available: the pool is handed out to two hungry instances until
	// neither grows any more, one of them dies, the survivor keeps sending the very same
	// report: it must be given more once the dead one has been reclaimed
	if ld != nil {
		mif := &schemaCfg{name: "mif", limit: Lmif}
		var live []*c18Inst
		for _, in := range insts {
			if !in.silent {
				live = append(live, in)
			}
		}
		if len(live) >= 2 {
			a, v := live[0], live[1]
			hungryRound := func(in *c18Inst) bool {
				_ = ld.RL.Heartbeat(in.id)
				used := in.quota.q
				if !in.quota.known || used < 1 {
					used = 1
				}
				return report(in, used)
			}
			stable := 0
			for k := 0; k < 40 && stable < 3; k++ {
				qa, qv := a.quota.q, v.quota.q
				okA, okV := hungryRound(a), hungryRound(v)
				w.Advance(200 * time.Millisecond)
				if okA && okV && a.quota.q == qa && v.quota.q == qv {
					stable++
				} else {
					stable = 0
				}
			}
			var ids []string
			for _, in := range live {
				ids = append(ids, in.id)
			}
			if stable >= 3 && a.quota.q >= 4 && v.quota.q >= 3 {
				// the victim dies; the survivor goes on as before
				v.silent, v.silentAt = true, w.Now()
				v.gw.Stop()
				r.Fault("crash")
				for k := 0; k < 6; k++ { // 6 s: the 1 s sweep has certainly run (time-out 3 s)
					hungryRound(a)
					for _, in := range live {
						if in != v {
							_ = ld.RL.Heartbeat(in.id)
						}
					}
					w.Advance(time.Second)
				}
				rec, err := recordedQuotas(ld, up, ids, mif)
				_, victimOnRecord := rec[v.id]
				if err == nil && !victimOnRecord {
					var liveSum int32
					for _, q := range rec {
						liveSum += q
					}
					if free := Lmif - liveSum; free >= 3 {
						r.Checked("freed_quota_available_to_hungry_survivor")
						before := a.quota.q
						answered := 0
						for k := 0; k < 4 && a.quota.q <= before; k++ {
							if hungryRound(a) {
								answered++
							}
							w.Advance(300 * time.Millisecond)
						}
						r.Logf("survivor %s: quota %d -> %d after %d more answered reports (the dead %s held %d; live instances hold %d of %d)", a.gw.Name, before, a.quota.q, answered, v.gw.Name, v.quota.q, liveSum, Lmif)
						if answered >= 3 && a.quota.q <= before {
							r.Violate("freed_quota_not_available", storeKind, "instance %s died holding quota %d and was reclaimed; the live instances hold %d of the limit %d; %s, using its whole quota of %d, kept sending the same report (%d answered after the reclamation) and was never given more: the dead instance's quota is still counted", v.gw.Name, v.quota.q, liveSum, Lmif, a.gw.Name, before, answered)
							return
						}
					}
				}
			}
		}
	}
	if ld != nil {
		auditor := join()
		w.Advance(3 * time.Second)
		var liveSum int32
		var live []string
		for _, in := range insts {
			if in == auditor || in.silent {
				continue
			}
			// refresh the live instance's count so that the model is exact
			if ok, _ := acquire(in, in.count); ok {
				liveSum += in.count
				live = append(live, fmt.Sprintf("%s=%d", in.gw.Name, in.count))
			} else {
				liveSum = -1
				break
			}
		}
		sort.Strings(live)
		if liveSum >= 0 && liveSum < Lcnt {
			r.Checked("freed_inflight_available")
			ask := Lcnt - liveSum - 1
			ok, acc := acquire(auditor, ask)
			if ok && !acc && ask > 0 {
				var dead []string
				neverHB := true
				for _, in := range insts {
					if in.silent && in.count > 0 {
						dead = append(dead, fmt.Sprintf("%s count=%d heartbeats_at_leader=%d", in.gw.Name, in.count, len(in.hb[ld.Name])))
						if len(in.hb[ld.Name]) > 0 {
							neverHB = false
						}
					}
				}
				sig := storeKind
				if neverHB {
					sig += "/never-heartbeated"
				}
				r.Violate("freed_capacity_not_available", sig, "all silent instances were reclaimed, live instances hold %v of the global in-flight limit %d, yet a survivor asking for %d was refused: counts of dead instances are still held (silent instances with a count: %v)", live, Lcnt, ask, dead)
				return
			}
		}
	}
	r.SimSecs = w.Now().Seconds()
	r.ProbeN("dead_instance_checks", reclaimedChecked)
	r.ProbeN("live_instance_checks", liveChecked)
	r.ProbeN("short_network_blips", blips)
	r.Nontrivial = reclaimedChecked > 0 && liveChecked > 0
	r.Sample = map[string]interface{}{"replicas": nRep, "store": storeKind, "store_period": period.String(), "identities": idStyle, "instances": len(insts), "dead_checks": reclaimedChecked, "live_checks": liveChecked}
}
