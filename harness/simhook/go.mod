module kgsimhook

go 1.26
