// Package kgsimhook is the only thing instrumented copies of kubegateway (and of
// its maxinflight dependency) import. With no scheduler installed every
// function here behaves exactly like the statement it replaced.
package kgsimhook

import (
	"runtime"
	"sync/atomic"
	"time"
)

// Hooks is implemented by the simulator's cooperative scheduler.
type Hooks interface {
	// IsSimThread reports whether the calling goroutine is scheduled by the simulator.
	IsSimThread() bool
	// Yield parks the calling sim thread at site until the driver resumes it.
	Yield(site string)
	// Blocked parks the calling sim thread because a lock it wants is held.
	Blocked(site string)
	// InBubble reports whether the run executes under a fake clock, where a
	// goroutine that is not a sim thread may wait for a lock by sleeping fake
	// time (a durable block) instead of blocking inside the runtime.
	InBubble() bool
}

type holder struct{ h Hooks }

var cur atomic.Pointer[holder]

// Install sets (or, with nil, removes) the scheduler.
func Install(h Hooks) {
	if h == nil {
		cur.Store(nil)
		return
	}
	cur.Store(&holder{h})
}

func get() Hooks {
	p := cur.Load()
	if p == nil {
		return nil
	}
	return p.h
}

// Yield is inserted before every statement of the instrumented functions.
func Yield(site string) {
	if h := get(); h != nil {
		h.Yield(site)
	}
}

// LockF replaces `x.Lock()` / `x.RLock()`: lock is x.Lock (or x.RLock), try is
// x.TryLock (or x.TryRLock). A sim thread never blocks inside the runtime on a
// lock held by a parked sim thread; it parks at a "blocked" sim point instead.
func LockF(lock func(), try func() bool, site string) {
	h := get()
	if h == nil {
		lock()
		return
	}
	if !h.IsSimThread() {
		if h.InBubble() {
			for !try() {
				time.Sleep(time.Millisecond)
			}
			return
		}
		lock()
		return
	}
	h.Yield(site)
	for !try() {
		h.Blocked(site)
	}
}

// Goid returns the id of the calling goroutine.
func Goid() uint64 {
	var buf [40]byte
	n := runtime.Stack(buf[:], false)
	// "goroutine 123 ["
	var id uint64
	for i := len("goroutine "); i < n; i++ {
		c := buf[i]
		if c < '0' || c > '9' {
			break
		}
		id = id*10 + uint64(c-'0')
	}
	return id
}
