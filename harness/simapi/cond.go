// Package simapi is the simulated control-plane API ("disk" of the system):
// durable objects live here and survive crashes of the nodes; every call
// passes two sim points (before it is applied, before its result returns) at
// which the driver injects faults or crashes the caller.
package simapi

import (
	"context"
	"fmt"
	"reflect"
	"sort"
	"strconv"
	"sync"
	"time"

	apierrors "k8s.io/apimachinery/pkg/api/errors"
	metav1 "k8s.io/apimachinery/pkg/apis/meta/v1"
	"k8s.io/apimachinery/pkg/types"
	"k8s.io/apimachinery/pkg/watch"
	"k8s.io/client-go/discovery"
	"k8s.io/client-go/rest"

	"github.com/kubewharf/kubegateway/pkg/apis/proxy/v1alpha1"
	gatewayclientset "github.com/kubewharf/kubegateway/pkg/client/kubernetes"
	typed "github.com/kubewharf/kubegateway/pkg/client/kubernetes/typed/proxy/v1alpha1"

	"kgsim/sim"
)

// Outcomes the driver can choose at an API sim point.
const (
	Proceed = iota
	ErrNotFound
	ErrConflict
	ErrAlreadyExists
	ErrTransient // 500, not applied
	ErrTimeout   // pre: not applied; post: applied but the acknowledgement is lost
	Crash        // the caller never continues
)

var OutcomeNames = []string{"ok", "api_notfound", "api_conflict", "api_alreadyexists", "api_transient", "api_timeout", "crash"}

var condGR = v1alpha1.Resource("ratelimitconditions")

// CondAPI stores RateLimitCondition objects.
type CondAPI struct {
	Sc   *sim.Sched
	mu   sync.Mutex
	objs map[string]*v1alpha1.RateLimitCondition
	rv   int64
	// Calls counts API calls by verb (evidence).
	Calls map[string]int
	// Fault, when set, decides the outcome of calls of clients that do not park
	// at sim points (a driver-owned link state: "this node's API is down");
	// consulted once per call, before it is applied.
	Fault func(node, verb, name string) int
	// mod: when each object was last written (fake clock), for oracles that
	// need "persisted before t".
	mod map[string]time.Time
	// writes: every applied create / main-resource update, in order
	writes []WriteRec
	// deletes: every applied delete, in order; OnDelete is called for each (outside the lock)
	deletes  []DeleteRec
	OnDelete func(node, name string)
}

// ModTime returns when the named object was last created or updated.
func (a *CondAPI) ModTime(name string) (time.Time, bool) {
	a.mu.Lock()
	defer a.mu.Unlock()
	t, ok := a.mod[name]
	return t, ok
}

// WriteRec is one applied spec write (create or main-resource update).
// DeleteRec is one applied delete: who removed which condition, and when.
type DeleteRec struct {
	Node string
	Name string
	At   time.Time
}

// Deletes returns the log of applied deletes.
func (a *CondAPI) Deletes() []DeleteRec {
	a.mu.Lock()
	defer a.mu.Unlock()
	return append([]DeleteRec(nil), a.deletes...)
}

type WriteRec struct {
	Node string // the writing client's node ("" = the driver acting as a foreign writer)
	Name string
	Obj  *v1alpha1.RateLimitCondition // as stored
}

// Writes returns the log of applied spec writes from index from on.
func (a *CondAPI) Writes(from int) []WriteRec {
	a.mu.Lock()
	defer a.mu.Unlock()
	if from > len(a.writes) {
		from = len(a.writes)
	}
	return append([]WriteRec(nil), a.writes[from:]...)
}

// NWrites is the current length of the write log.
func (a *CondAPI) NWrites() int {
	a.mu.Lock()
	defer a.mu.Unlock()
	return len(a.writes)
}

func (a *CondAPI) touched(name string) {
	if a.mod == nil {
		a.mod = map[string]time.Time{}
	}
	a.mod[name] = time.Now()
}

func NewCondAPI(sc *sim.Sched) *CondAPI {
	return &CondAPI{Sc: sc, objs: map[string]*v1alpha1.RateLimitCondition{}, Calls: map[string]int{}}
}

// Snapshot returns deep copies of all stored objects sorted by name (driver side, no sim point).
func (a *CondAPI) Snapshot() []*v1alpha1.RateLimitCondition {
	a.mu.Lock()
	defer a.mu.Unlock()
	var out []*v1alpha1.RateLimitCondition
	for _, o := range a.objs {
		out = append(out, o.DeepCopy())
	}
	sort.Slice(out, func(i, j int) bool { return out[i].Name < out[j].Name })
	return out
}

// DirectDelete / DirectPut are used by the driver to act as a foreign writer.
func (a *CondAPI) DirectDelete(name string) bool {
	a.mu.Lock()
	defer a.mu.Unlock()
	_, ok := a.objs[name]
	delete(a.objs, name)
	return ok
}

// DirectPut creates or replaces an object (foreign writer).
func (a *CondAPI) DirectPut(obj *v1alpha1.RateLimitCondition) {
	a.mu.Lock()
	defer a.mu.Unlock()
	st := obj.DeepCopy()
	st.ResourceVersion = a.nextRV()
	a.objs[st.Name] = st
	a.touched(st.Name)
	a.writes = append(a.writes, WriteRec{Node: "", Name: st.Name, Obj: st.DeepCopy()})
}

func (a *CondAPI) nextRV() string {
	a.rv++
	return strconv.FormatInt(a.rv, 10)
}

// CondClient is one node's handle on the API.
type CondClient struct {
	api  *CondAPI
	Node string
	// Parked decides whether calls of this client pass sim points at all
	// (false = plain in-memory API, used after faults stop).
	Parked bool
}

func (a *CondAPI) Client(node string, parked bool) *CondClient {
	return &CondClient{api: a, Node: node, Parked: parked}
}

func (c *CondClient) point(phase, verb, name string) int {
	c.api.mu.Lock()
	c.api.Calls[verb+":"+phase]++
	c.api.mu.Unlock()
	if !c.Parked {
		if phase == "pre" && c.api.Fault != nil {
			return c.api.Fault(c.Node, verb, name)
		}
		return Proceed
	}
	out := c.api.Sc.ParkPoint("api-"+phase, c.Node, fmt.Sprintf("api:%s:%s:%s:%s", c.Node, verb, name, phase), nil)
	if out == Crash {
		select {} // a dead process never returns from its call
	}
	return out
}

func injected(out int, verb, name string) error {
	switch out {
	case ErrNotFound:
		return apierrors.NewNotFound(condGR, name)
	case ErrConflict:
		return apierrors.NewConflict(condGR, name, fmt.Errorf("injected conflict"))
	case ErrAlreadyExists:
		return apierrors.NewAlreadyExists(condGR, name)
	case ErrTransient:
		return apierrors.NewInternalError(fmt.Errorf("injected transient error (%s %s)", verb, name))
	case ErrTimeout:
		return apierrors.NewTimeoutError(fmt.Sprintf("injected timeout (%s %s)", verb, name), 1)
	}
	return nil
}

func (c *CondClient) Create(ctx context.Context, obj *v1alpha1.RateLimitCondition, opts metav1.CreateOptions) (*v1alpha1.RateLimitCondition, error) {
	name := obj.Name // like the generated REST client: a nil object crashes the caller
	if out := c.point("pre", "create", name); out != Proceed {
		return nil, injected(out, "create", name)
	}
	a := c.api
	a.mu.Lock()
	if _, ok := a.objs[name]; ok {
		a.mu.Unlock()
		c.point("post", "create", name)
		return nil, apierrors.NewAlreadyExists(condGR, name)
	}
	// pkg/gateway/controlplane/registry/proxy/rest registers ratelimitconditions with
	// NewDefaultRESTStrategy(false, false): no status subresource, so creation
	// keeps the status and a main-resource update writes it
	st := obj.DeepCopy()
	st.ResourceVersion = a.nextRV()
	st.Generation = 1
	a.objs[name] = st
	a.touched(name)
	a.writes = append(a.writes, WriteRec{Node: c.Node, Name: name, Obj: st.DeepCopy()})
	ret := st.DeepCopy()
	a.mu.Unlock()
	if out := c.point("post", "create", name); out != Proceed {
		return nil, injected(out, "create", name)
	}
	return ret, nil
}

func (c *CondClient) update(verb string, obj *v1alpha1.RateLimitCondition, status bool) (*v1alpha1.RateLimitCondition, error) {
	name := obj.Name
	if out := c.point("pre", verb, name); out != Proceed {
		return nil, injected(out, verb, name)
	}
	a := c.api
	a.mu.Lock()
	old, ok := a.objs[name]
	if !ok {
		a.mu.Unlock()
		c.point("post", verb, name)
		return nil, apierrors.NewNotFound(condGR, name)
	}
	if obj.ResourceVersion != "" && obj.ResourceVersion != old.ResourceVersion {
		a.mu.Unlock()
		c.point("post", verb, name)
		return nil, apierrors.NewConflict(condGR, name, fmt.Errorf("the object has been modified (have %s, sent %s)", old.ResourceVersion, obj.ResourceVersion))
	}
	if status {
		// there is no status subresource for this resource in the control plane
		a.mu.Unlock()
		c.point("post", verb, name)
		return nil, apierrors.NewNotFound(condGR, name+"/status")
	}
	st := obj.DeepCopy()
	if !reflect.DeepEqual(st.Spec, old.Spec) || !reflect.DeepEqual(st.Annotations, old.Annotations) {
		st.Generation = old.Generation + 1
	} else {
		st.Generation = old.Generation
	}
	st.ResourceVersion = a.nextRV()
	a.objs[name] = st
	a.touched(name)
	a.writes = append(a.writes, WriteRec{Node: c.Node, Name: name, Obj: st.DeepCopy()})
	ret := st.DeepCopy()
	a.mu.Unlock()
	if out := c.point("post", verb, name); out != Proceed {
		return nil, injected(out, verb, name)
	}
	return ret, nil
}

func (c *CondClient) Update(ctx context.Context, obj *v1alpha1.RateLimitCondition, opts metav1.UpdateOptions) (*v1alpha1.RateLimitCondition, error) {
	return c.update("update", obj, false)
}

func (c *CondClient) UpdateStatus(ctx context.Context, obj *v1alpha1.RateLimitCondition, opts metav1.UpdateOptions) (*v1alpha1.RateLimitCondition, error) {
	return c.update("updatestatus", obj, true)
}

func (c *CondClient) Delete(ctx context.Context, name string, opts metav1.DeleteOptions) error {
	if out := c.point("pre", "delete", name); out != Proceed {
		return injected(out, "delete", name)
	}
	a := c.api
	a.mu.Lock()
	_, ok := a.objs[name]
	delete(a.objs, name)
	if ok {
		a.deletes = append(a.deletes, DeleteRec{Node: c.Node, Name: name, At: time.Now()})
	}
	hook := a.OnDelete
	a.mu.Unlock()
	if ok && hook != nil {
		hook(c.Node, name)
	}
	if out := c.point("post", "delete", name); out != Proceed {
		return injected(out, "delete", name)
	}
	if !ok {
		return apierrors.NewNotFound(condGR, name)
	}
	return nil
}

func (c *CondClient) DeleteCollection(ctx context.Context, opts metav1.DeleteOptions, listOpts metav1.ListOptions) error {
	return fmt.Errorf("simapi: DeleteCollection not supported")
}

func (c *CondClient) Get(ctx context.Context, name string, opts metav1.GetOptions) (*v1alpha1.RateLimitCondition, error) {
	if out := c.point("pre", "get", name); out != Proceed {
		return nil, injected(out, "get", name)
	}
	a := c.api
	a.mu.Lock()
	o, ok := a.objs[name]
	var ret *v1alpha1.RateLimitCondition
	if ok {
		ret = o.DeepCopy()
	}
	a.mu.Unlock()
	if !ok {
		return nil, apierrors.NewNotFound(condGR, name)
	}
	return ret, nil
}

func (c *CondClient) List(ctx context.Context, opts metav1.ListOptions) (*v1alpha1.RateLimitConditionList, error) {
	if out := c.point("pre", "list", ""); out != Proceed {
		return nil, injected(out, "list", "")
	}
	l := &v1alpha1.RateLimitConditionList{}
	for _, o := range c.api.Snapshot() {
		l.Items = append(l.Items, *o)
	}
	return l, nil
}

func (c *CondClient) Watch(ctx context.Context, opts metav1.ListOptions) (watch.Interface, error) {
	return nil, fmt.Errorf("simapi: Watch on ratelimitconditions not supported")
}

func (c *CondClient) Patch(ctx context.Context, name string, pt types.PatchType, data []byte, opts metav1.PatchOptions, subresources ...string) (*v1alpha1.RateLimitCondition, error) {
	return nil, fmt.Errorf("simapi: Patch not supported")
}

func (c *CondClient) Acquire(ctx context.Context, name string, acq *v1alpha1.RateLimitAcquire, opts metav1.CreateOptions) (*v1alpha1.RateLimitAcquire, error) {
	return nil, fmt.Errorf("simapi: Acquire is served by limiter replicas, not by the control plane")
}

// Clientset implements the generated clientset interface over the simulated API.
type Clientset struct {
	Cond     *CondClient
	Upstream typed.UpstreamClusterInterface // may be nil
}

var _ gatewayclientset.Interface = &Clientset{}

func (c *Clientset) Discovery() discovery.DiscoveryInterface     { return nil }
func (c *Clientset) ProxyV1alpha1() typed.ProxyV1alpha1Interface { return proxyClient{c} }

type proxyClient struct{ c *Clientset }

func (p proxyClient) RESTClient() rest.Interface                             { return nil }
func (p proxyClient) RateLimitConditions() typed.RateLimitConditionInterface { return p.c.Cond }
func (p proxyClient) UpstreamClusters() typed.UpstreamClusterInterface       { return p.c.Upstream }
