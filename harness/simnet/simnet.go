// Package simnet is the simulated network between gateway instances and
// limiter replicas: an http.RoundTripper that turns every RPC into a request
// message and a response message owned by the driver. On delivery the request
// is served in-process by the addressed node's real handler chain.
package simnet

import (
	"bytes"
	"fmt"
	"io"
	"net/http"
	"net/http/httptest"
	"strings"
	"sync"
	"time"

	"kgsim/sim"
)

// Outcomes at a message sim point.
const (
	Deliver = iota
	Drop
	Duplicate // request only: the server handles the request twice, the client sees the first answer
)

// Msg describes one RPC for the driver.
type Msg struct {
	From, To string
	Method   string
	Path     string
	Query    string
	Kind     string // serverinfo | heartbeat | allocate | acquire | other
	Seq      int
	Body     []byte
	Status   int // response status (response point)
}

// Node is one server on the network.
type Node struct {
	Name    string
	Handler http.Handler
	Dead    bool
}

type Net struct {
	Sc *sim.Sched
	R  *sim.Run
	mu sync.Mutex
	// nodes by host[:port] as it appears in URLs
	nodes map[string]*Node
	seq   int
	// cut[a+"|"+b] = true: no message passes between a and b
	cut map[string]bool
	// Hold decides which messages park at sim points (others follow the link
	// state at once): key = kind + ":req" / kind + ":resp".
	Hold map[string]bool
	// TCPTimeout is how long a caller without deadline waits for a lost message.
	TCPTimeout time.Duration
	// Latency of every delivered message (fake time).
	Latency time.Duration
	// Sent counts messages by kind (evidence).
	Sent map[string]int
	// OnServed, when set, observes every request that was served by a node
	// (after the handler returned).
	OnServed func(m *Msg)
	// OnReturned, when set, observes every response that is handed back to the
	// caller (it was neither lost nor cancelled).
	OnReturned func(m *Msg)
}

func New(sc *sim.Sched, r *sim.Run) *Net {
	return &Net{Sc: sc, R: r, nodes: map[string]*Node{}, cut: map[string]bool{}, Hold: map[string]bool{}, TCPTimeout: 30 * time.Second, Latency: time.Millisecond, Sent: map[string]int{}}
}

func (n *Net) AddNode(host string, h http.Handler) *Node {
	nd := &Node{Name: host, Handler: h}
	n.mu.Lock()
	n.nodes[host] = nd
	n.mu.Unlock()
	return nd
}

func (n *Net) Node(host string) *Node {
	n.mu.Lock()
	defer n.mu.Unlock()
	return n.nodes[host]
}

// Partition cuts or heals the link between two names ("*" = everybody).
func (n *Net) Partition(a, b string, cut bool) {
	n.mu.Lock()
	n.cut[a+"|"+b] = cut
	n.cut[b+"|"+a] = cut
	n.mu.Unlock()
}

func (n *Net) isCut(a, b string) bool {
	n.mu.Lock()
	defer n.mu.Unlock()
	return n.cut[a+"|"+b] || n.cut[a+"|*"] || n.cut["*|"+b] || n.cut[b+"|*"] || n.cut["*|"+a]
}

func kindOf(method, path string) string {
	switch {
	case strings.HasSuffix(path, "/ratelimit/endpoints"):
		return "serverinfo"
	case strings.HasSuffix(path, "/ratelimit/heartbeat"):
		return "heartbeat"
	case method == "PUT" && strings.HasSuffix(path, "/status"):
		return "allocate"
	case method == "POST" && strings.HasSuffix(path, "/acquire"):
		return "acquire"
	}
	return "other"
}

type rt struct {
	n    *Net
	from string
}

// RoundTripper returns the transport of node `from`.
func (n *Net) RoundTripper(from string) http.RoundTripper { return &rt{n, from} }

func (t *rt) lost(req *http.Request, what string) (*http.Response, error) {
	ctx := req.Context()
	tm := time.NewTimer(t.n.TCPTimeout)
	defer tm.Stop()
	select {
	case <-ctx.Done():
		return nil, fmt.Errorf("%s %s: %s: %w", req.Method, req.URL.Path, what, ctx.Err())
	case <-tm.C:
		return nil, fmt.Errorf("%s %s: %s: connection timed out", req.Method, req.URL.Path, what)
	}
}

func (t *rt) RoundTrip(req *http.Request) (*http.Response, error) {
	n := t.n
	var body []byte
	if req.Body != nil {
		body, _ = io.ReadAll(req.Body)
		req.Body.Close()
	}
	to := req.URL.Host
	n.mu.Lock()
	n.seq++
	m := &Msg{From: t.from, To: to, Method: req.Method, Path: req.URL.Path, Query: req.URL.RawQuery, Kind: kindOf(req.Method, req.URL.Path), Seq: n.seq, Body: body}
	n.Sent[m.Kind]++
	node := n.nodes[to]
	holdReq, holdResp := n.Hold[m.Kind+":req"], n.Hold[m.Kind+":resp"]
	n.mu.Unlock()

	out := Deliver
	if holdReq {
		out = n.Sc.ParkPoint("rpc-req", t.from, fmt.Sprintf("rpc:%s->%s:%s:req#%06d", t.from, to, m.Kind, m.Seq), m)
	}
	if node == nil || node.Dead || n.isCut(t.from, to) || out == Drop {
		n.R.Fault("msg_drop")
		return t.lost(req, "request lost")
	}
	time.Sleep(n.Latency)
	if req.Context().Err() != nil {
		return nil, req.Context().Err()
	}
	serve := func() *httptest.ResponseRecorder {
		r2 := req.Clone(req.Context())
		r2.Body = io.NopCloser(bytes.NewReader(body))
		r2.RequestURI = req.URL.RequestURI()
		r2.RemoteAddr = t.from + ":1"
		rec := httptest.NewRecorder()
		node.Handler.ServeHTTP(rec, r2)
		return rec
	}
	rec := serve()
	m.Status = rec.Code
	if n.OnServed != nil {
		n.OnServed(m)
	}
	if out == Duplicate {
		n.R.Fault("msg_dup")
		serve()
	}
	m.Status = rec.Code
	out = Deliver
	if holdResp {
		out = n.Sc.ParkPoint("rpc-resp", t.from, fmt.Sprintf("rpc:%s->%s:%s:resp#%06d", t.from, to, m.Kind, m.Seq), m)
	}
	if out == Drop || n.isCut(t.from, to) || (n.Node(to) != nil && n.Node(to).Dead) {
		n.R.Fault("msg_drop")
		return t.lost(req, "response lost")
	}
	time.Sleep(n.Latency)
	if req.Context().Err() != nil {
		return nil, req.Context().Err()
	}
	res := rec.Result()
	res.Request = req
	if n.OnReturned != nil {
		n.OnReturned(m)
	}
	return res, nil
}
