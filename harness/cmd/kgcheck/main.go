// kgcheck is the coordinator: it rebuilds the worker from /repo's working tree,
// fans seeds out over worker processes, aggregates evidence, shrinks and
// replays violations, and prints VIOLATION / KNOWN-FINDING lines.
//
// exit 0: property held on everything explored (KNOWN-FINDING lines possible)
// exit 1: VIOLATION property=<id> replay=<path>
// exit 2: build failure, watchdog, missing instrumentation target, replay divergence
package main

import (
	"bufio"
	"encoding/json"
	"flag"
	"fmt"
	"os"
	"os/exec"
	"path/filepath"
	"regexp"
	"runtime"
	"sort"
	"strconv"
	"strings"
	"sync"
	"syscall"
	"time"

	"kgsim/meta"
	"kgsim/sim"
	"kgsim/tape"
)

type runSpec struct {
	Idx    int      `json:"idx"`
	Seed   uint64   `json:"seed"`
	Tape   []uint32 `json:"tape,omitempty"`
	Replay bool     `json:"replay,omitempty"`
}

type spec struct {
	Property  string            `json:"property"`
	World     string            `json:"world"`
	Profile   string            `json:"profile"`
	Opts      map[string]string `json:"opts,omitempty"`
	KeepTrace bool              `json:"keep_trace,omitempty"`
	Runs      []runSpec         `json:"runs"`
}

type replayFile struct {
	Property   string         `json:"property"`
	World      string         `json:"world"`
	Profile    string         `json:"profile"`
	Seed       uint64         `json:"seed"`
	BatchSeed  uint64         `json:"batch_seed"`
	Tape       []uint32       `json:"tape"`
	Violation  *sim.Violation `json:"violation"`
	TraceHash  string         `json:"trace_hash"`
	FaultTrace map[string]int `json:"fault_trace,omitempty"`
	Trace      []string       `json:"trace,omitempty"`
	RepoRev    string         `json:"repo_rev"`
	Shrunk     string         `json:"shrunk,omitempty"`
	OrigTape   int            `json:"orig_tape_len,omitempty"`
}

type finding struct {
	Property string `json:"property"`
	ID       string `json:"id"`
	Class    string `json:"class"`
	SigRegex string `json:"sig_regex"`
	Text     string `json:"text"`
	Replay   string `json:"replay,omitempty"` // recorded history, relative to /verif
}

type findingsFile struct {
	Findings []finding `json:"findings"`
	Fixed    []string  `json:"fixed"`
}

var (
	onlyIdx   = -1
	watchdogS = 0
	verifDir  string
	repoDir   = "/repo"
	workers   = runtime.NumCPU()
)

func fatal2(format string, a ...interface{}) {
	fmt.Fprintf(os.Stderr, "kgcheck: "+format+"\n", a...)
	os.Exit(2)
}

func main() {
	tier := flag.String("tier", "", "quick|thorough")
	replay := flag.String("replay", "", "replay file")
	runsOverride := flag.Int("runs", 0, "override number of runs per batch")
	onlyBatch := flag.String("batch", "", "only batches whose profile contains this string")
	noShrink := flag.Bool("no-shrink", false, "do not minimise")
	buildOnly := flag.Bool("build-only", false, "build the worker and exit")
	determinism := flag.Int("determinism", 0, "self-test: run this many runs per batch three times (16, 4 and 1 workers) and compare trace hashes")
	flag.IntVar(&onlyIdx, "idx", -1, "debug: run only this run index of the selected batch, print its trace")
	flag.IntVar(&watchdogS, "watchdog", 0, "override the per-process watchdog (seconds)")
	flag.Usage = func() {
		fmt.Fprintf(os.Stderr, "usage: kgcheck [flags] <property-id>\n")
		flag.PrintDefaults()
	}
	// allow flags after the id
	var id string
	args := os.Args[1:]
	var rest []string
	valueFlag := map[string]bool{"determinism": true, "tier": true, "replay": true, "runs": true, "batch": true, "idx": true, "watchdog": true}
	for i := 0; i < len(args); i++ {
		if !strings.HasPrefix(args[i], "-") && id == "" {
			id = args[i]
			continue
		}
		rest = append(rest, args[i])
		name := strings.TrimLeft(args[i], "-")
		if valueFlag[name] && i+1 < len(args) {
			i++
			rest = append(rest, args[i])
		}
	}
	if err := flag.CommandLine.Parse(rest); err != nil {
		os.Exit(2)
	}
	if id == "" && *replay == "" {
		flag.Usage()
		os.Exit(2)
	}
	verifDir = os.Getenv("KG_VERIF")
	if verifDir == "" {
		wd, _ := os.Getwd()
		verifDir = wd
	}
	if r := os.Getenv("KG_REPO"); r != "" {
		repoDir = r
	}
	if w := os.Getenv("KG_WORKERS"); w != "" {
		if n, err := strconv.Atoi(w); err == nil && n > 0 {
			workers = n
		}
	}
	if *tier == "" {
		*tier = os.Getenv("VERIF_TIER")
	}
	if *tier == "" {
		*tier = "quick"
	}
	if *tier != "quick" && *tier != "thorough" {
		fatal2("unknown tier %q", *tier)
	}
	seed := uint64(1)
	if s := os.Getenv("VERIF_SEED"); s != "" {
		v, err := strconv.ParseInt(s, 10, 64)
		if err != nil {
			u, err2 := strconv.ParseUint(s, 10, 64)
			if err2 != nil {
				fatal2("bad VERIF_SEED %q", s)
			}
			seed = u
		} else {
			seed = uint64(v)
		}
	}

	if *buildOnly {
		bi, err := ensureBuild(verifDir, repoDir)
		if err != nil {
			fatal2("build failed: %v", err)
		}
		fmt.Printf("kgcheck: build=%s cached=%v build_s=%.1f\n", bi.Hash, bi.Cached, bi.BuildS)
		os.Exit(0)
	}
	if *replay != "" {
		os.Exit(doReplay(*replay))
	}
	chk, ok := meta.Checks[id]
	if !ok {
		fatal2("unknown property %q", id)
	}
	if *determinism > 0 {
		os.Exit(doDeterminism(chk, seed, *determinism, *onlyBatch))
	}
	os.Exit(doCheck(chk, *tier, seed, *runsOverride, *onlyBatch, !*noShrink))
}

func repoRev() string {
	out, err := exec.Command("git", "-C", repoDir, "rev-parse", "--short", "HEAD").Output()
	if err != nil {
		return "unknown"
	}
	rev := strings.TrimSpace(string(out))
	st, _ := exec.Command("git", "-C", repoDir, "status", "--porcelain", "--untracked-files=no").Output()
	if len(strings.TrimSpace(string(st))) > 0 {
		rev += "+dirty"
	}
	return rev
}

// runProc executes one worker process for sp and returns its results.
// procWatchdog: wall-clock budget of one worker process. A process of many runs is
// a process of short runs (the ilv worlds take milliseconds each), so the budget is
// capped: a thread of the system blocked for good outside the instrumented code
// must not hold a check for hours.
func procWatchdog(nRuns int) time.Duration {
	to := time.Duration(nRuns)*20*time.Second + 60*time.Second
	if to > 10*time.Minute {
		to = 10 * time.Minute
	}
	return to
}

func runProc(worker string, sp spec, timeout time.Duration) ([]sim.Result, string, error) {
	dir, err := os.MkdirTemp(filepath.Join(verifDir, ".work", "runs"), "p")
	if err != nil {
		return nil, "", err
	}
	defer os.RemoveAll(dir)
	in := filepath.Join(dir, "spec.json")
	out := filepath.Join(dir, "out.jsonl")
	b, _ := json.Marshal(sp)
	if err := os.WriteFile(in, b, 0o644); err != nil {
		return nil, "", err
	}
	cmd := exec.Command(worker, "-test.run", "^TestWorker$", "-test.timeout", "0", "-kg.in", in, "-kg.out", out)
	if tf := os.Getenv("KG_WORKER_TRACE"); tf != "" { // debugging aid: Go execution trace of the worker
		cmd.Args = append(cmd.Args, "-test.trace", tf)
	}
	cmd.Dir = dir
	cmd.Env = append(os.Environ(), "GOMAXPROCS=1", "GODEBUG=randseednop=0,asyncpreemptoff=1", "GOTRACEBACK=all")
	if len(sp.Runs) == 1 {
		// one run per process (bubble worlds, where goroutines other than the
		// driver run under the Go scheduler): no garbage collection cycles, so no
		// goroutine is ever descheduled for one; which goroutine runs next then
		// depends on the program alone
		cmd.Env = append(cmd.Env, "GOGC=off")
	}
	var stderr strings.Builder
	cmd.Stderr = &limitWriter{w: &stderr, max: 1 << 20}
	cmd.Stdout = &limitWriter{w: &stderr, max: 1 << 20}
	if os.Getenv("KG_KLOG_V") != "" {
		// debugging aid: the system's own log of the run
		cmd.Stderr = os.Stderr
	}
	if err := cmd.Start(); err != nil {
		return nil, "", err
	}
	done := make(chan error, 1)
	go func() { done <- cmd.Wait() }()
	var werr error
	timedOut := false
	select {
	case werr = <-done:
	case <-time.After(timeout):
		timedOut = true
		_ = cmd.Process.Signal(syscall.SIGQUIT) // goroutine dump for the log
		select {
		case werr = <-done:
		case <-time.After(3 * time.Second):
			_ = cmd.Process.Kill()
			werr = <-done
		}
	}
	var res []sim.Result
	if f, err := os.Open(out); err == nil {
		sc := bufio.NewScanner(f)
		sc.Buffer(make([]byte, 1<<20), 64<<20)
		for sc.Scan() {
			var r sim.Result
			if json.Unmarshal(sc.Bytes(), &r) == nil {
				res = append(res, r)
			}
		}
		f.Close()
	}
	if timedOut {
		return res, stderr.String(), fmt.Errorf("watchdog: worker exceeded %v", timeout)
	}
	return res, stderr.String(), werr
}

type limitWriter struct {
	w   *strings.Builder
	max int
}

func (l *limitWriter) Write(p []byte) (int, error) {
	if l.w.Len() < l.max {
		l.w.Write(p)
	}
	return len(p), nil
}

type batchOut struct {
	batch   meta.Batch
	results []sim.Result
	hung    []string
	crashed []sim.Result // synthesized results for runs whose process died
	wallS   float64
}

var panicRe = regexp.MustCompile(`(?m)^(panic: .*|fatal error: .*)$`)

// crashSig extracts the panic message and the top frame of the panicking
// goroutine that lies in kubegateway (signature) or in the harness itself.
func crashSig(stderr string) (string, string) {
	msg := "worker died"
	loc := panicRe.FindStringIndex(stderr)
	if loc == nil {
		return msg, "unknown"
	}
	msg = stderr[loc[0]:loc[1]]
	rest := stderr[loc[1]:]
	// the panicking goroutine is the first goroutine block after the message
	if i := strings.Index(rest, "\ngoroutine "); i >= 0 {
		rest = rest[i+1:]
		if j := strings.Index(rest, "\n\n"); j >= 0 {
			rest = rest[:j]
		}
	}
	for _, l := range strings.Split(rest, "\n") {
		if strings.HasPrefix(l, "kgsim/") {
			return msg, "HARNESS:" + strings.SplitN(l, "(", 2)[0]
		}
		if strings.HasPrefix(l, "github.com/kubewharf/kubegateway/") || strings.HasPrefix(l, "github.com/zoumo/golib") {
			return msg, sim.TopRepoFrame(rest)
		}
	}
	return msg, sim.TopRepoFrame(rest)
}

func runBatch(bi *buildInfo, chk *meta.Check, b meta.Batch, n int, batchSeed uint64, opts map[string]string) batchOut {
	bo := batchOut{batch: b}
	start := time.Now()
	per := b.PerProc
	if per <= 0 {
		per = 1
	}
	type job struct{ sp spec }
	var jobs []job
	for i := 0; i < n; i += per {
		sp := spec{Property: chk.ID, World: b.World, Profile: b.Profile, Opts: opts}
		for j := i; j < i+per && j < n; j++ {
			if onlyIdx >= 0 && j != onlyIdx {
				continue
			}
			sp.Runs = append(sp.Runs, runSpec{Idx: j, Seed: tape.Mix(batchSeed, uint64(j))})
		}
		if onlyIdx >= 0 || os.Getenv("KG_KEEPTRACE") != "" {
			sp.KeepTrace = true
		}
		if len(sp.Runs) > 0 {
			jobs = append(jobs, job{sp})
		}
	}
	var mu sync.Mutex
	var wg sync.WaitGroup
	ch := make(chan job)
	for w := 0; w < workers; w++ {
		wg.Add(1)
		go func() {
			defer wg.Done()
			for jb := range ch {
				to := procWatchdog(len(jb.sp.Runs))
				if watchdogS > 0 {
					to = time.Duration(watchdogS) * time.Second
				}
				res, stderr, err := runProc(bi.Worker, jb.sp, to)
				mu.Lock()
				if onlyIdx >= 0 {
					for _, r := range res {
						for _, l := range r.Trace {
							fmt.Println("  " + l)
						}
						rb, _ := json.Marshal(r.Violation)
						fmt.Printf("idx=%d seed=%d violation=%s inconclusive=%q crashed=%q\n", r.Idx, r.Seed, rb, r.Inconclusive, r.Crashed)
					}
					if err != nil {
						fmt.Println(stderr)
					}
				}
				bo.results = append(bo.results, res...)
				if err != nil {
					got := map[int]bool{}
					for _, r := range res {
						got[r.Idx] = true
					}
					if strings.HasPrefix(err.Error(), "watchdog") {
						bo.hung = append(bo.hung, fmt.Sprintf("%s/%s idx=%d..: %v\n%s", b.World, b.Profile, jb.sp.Runs[0].Idx, err, tail(stderr, 12)))
					} else if _, sig := crashSig(stderr); sig == "unknown" {
						// the process ended without a result and without a Go panic or fatal error
						// in its output: killed from outside, a full disk, a file that could not be
						// written - trouble of the machine or the harness, not a verdict (exit 2)
						bo.hung = append(bo.hung, fmt.Sprintf("%s/%s idx=%d..: worker ended without a result and without a panic message: %v\n%s", b.World, b.Profile, jb.sp.Runs[0].Idx, err, tail(stderr, 12)))
					} else {
						// the first run without a result is the one that killed the process
						for _, rs := range jb.sp.Runs {
							if !got[rs.Idx] {
								msg, sig := crashSig(stderr)
								bo.crashed = append(bo.crashed, sim.Result{Property: chk.ID, World: b.World, Profile: b.Profile, Idx: rs.Idx, Seed: rs.Seed,
									Crashed: msg, Violation: &sim.Violation{Class: "crash", Sig: sig, Msg: msg + "\n" + tail(stderr, 40)}})
								break
							}
						}
					}
				}
				mu.Unlock()
			}
		}()
	}
	for _, jb := range jobs {
		ch <- jb
	}
	close(ch)
	wg.Wait()
	sort.Slice(bo.results, func(i, j int) bool { return bo.results[i].Idx < bo.results[j].Idx })
	bo.wallS = time.Since(start).Seconds()
	return bo
}

func loadFindings() findingsFile {
	var ff findingsFile
	if os.Getenv("KG_IGNORE_FINDINGS") != "" {
		return ff // maintenance: re-record the history of a listed finding
	}
	b, err := os.ReadFile(filepath.Join(verifDir, "known_findings.json"))
	if err == nil {
		if err := json.Unmarshal(b, &ff); err != nil {
			fatal2("known_findings.json: %v", err)
		}
	}
	return ff
}

func matchFinding(ff findingsFile, prop string, v *sim.Violation) *finding {
	for i := range ff.Findings {
		f := &ff.Findings[i]
		if f.Class != v.Class {
			continue
		}
		if f.SigRegex != "" {
			re, err := regexp.Compile(f.SigRegex)
			if err != nil || !re.MatchString(v.Sig) {
				continue
			}
		}
		// a finding listed under another property still identifies the same defect
		return f
	}
	return nil
}

func doCheck(chk *meta.Check, tier string, seed uint64, runsOverride int, onlyBatch string, shrinkOn bool) int {
	start := time.Now()
	_ = os.MkdirAll(filepath.Join(verifDir, ".work", "runs"), 0o755)
	_ = os.MkdirAll(filepath.Join(verifDir, "evidence"), 0o755)
	_ = os.MkdirAll(filepath.Join(verifDir, "replays"), 0o755)
	bi, err := ensureBuild(verifDir, repoDir)
	if err != nil {
		fatal2("build failed (not a verdict on the property): %v", err)
	}
	fmt.Printf("kgcheck: property=%s tier=%s seed=%d build=%s cached=%v build_s=%.1f workers=%d\n", chk.ID, tier, seed, bi.Hash, bi.Cached, bi.BuildS, workers)
	for _, need := range chk.NeedInst {
		for _, m := range bi.Missing {
			if strings.HasPrefix(m, need+":") {
				fatal2("instrumentation target missing: %s (cannot explore interleavings of code that is not there)", m)
			}
		}
	}
	ff := loadFindings()
	propSeed := seed ^ tape.HashString(chk.ID)

	var outs []batchOut
	for bi2, b := range chk.Batches {
		if onlyBatch != "" && !strings.Contains(b.Profile, onlyBatch) {
			continue
		}
		n := b.Quick
		if tier == "thorough" {
			n = b.Thor
		}
		if runsOverride > 0 {
			n = runsOverride
		}
		if n == 0 {
			continue
		}
		bs := tape.Mix(propSeed, uint64(1000+bi2))
		bo := runBatch(bi, chk, b, n, bs, nil)
		outs = append(outs, bo)
		fmt.Printf("kgcheck: batch %s/%s runs=%d wall=%.1fs\n", b.World, b.Profile, len(bo.results)+len(bo.crashed), bo.wallS)
	}

	// aggregate
	ev := newEvidence(chk, tier, seed)
	var hung []string
	type vio struct {
		res   sim.Result
		batch meta.Batch
		bseed uint64
	}
	var vios []vio
	for oi, bo := range outs {
		hung = append(hung, bo.hung...)
		for _, r := range append(bo.results, bo.crashed...) {
			ev.add(bo.batch, &r)
			if r.Violation == nil && r.Crashed != "" {
				r.Violation = &sim.Violation{Class: "crash", Sig: r.Crashed, Msg: r.Crashed}
			}
			if r.Violation != nil {
				vios = append(vios, vio{r, bo.batch, tape.Mix(propSeed, uint64(1000+oi))})
			}
			for _, ex := range r.Extra {
				r2 := r
				e := ex
				r2.Violation = &e
				r2.Extra = nil
				vios = append(vios, vio{r2, bo.batch, tape.Mix(propSeed, uint64(1000+oi))})
			}
		}
	}
	code := 0
	harnessCrash := false
	known := map[string]int{}
	var unknown []vio
	for _, v := range vios {
		if v.res.Violation.Class == "crash" && strings.HasPrefix(v.res.Violation.Sig, "HARNESS:") {
			fmt.Fprintf(os.Stderr, "kgcheck: HARNESS CRASH (not a verdict): idx=%d seed=%d %s\n%s\n", v.res.Idx, v.res.Seed, v.res.Violation.Sig, tail(v.res.Violation.Msg, 25))
			harnessCrash = true
			continue
		}
		if f := matchFinding(ff, chk.ID, v.res.Violation); f != nil {
			known[f.ID+"\x00"+f.Property+"\x00"+f.Text]++
			continue
		}
		unknown = append(unknown, v)
	}
	// every finding listed for this property is reported on every run: from the
	// batch if it showed up there, and from its recorded history
	for i := range ff.Findings {
		f := &ff.Findings[i]
		if f.Property != chk.ID {
			continue
		}
		k := f.ID + "\x00" + f.Property + "\x00" + f.Text
		seen := known[k]
		delete(known, k)
		repro := "no recorded history"
		if f.Replay != "" {
			repro = "recorded history does not reproduce on this tree/harness"
			if b, err := os.ReadFile(filepath.Join(verifDir, f.Replay)); err == nil {
				var rf replayFile
				if json.Unmarshal(b, &rf) == nil && rf.Tape != nil {
					res := runTapes(bi, rf.Property, meta.Batch{World: rf.World, Profile: rf.Profile, PerProc: 1}, [][]uint32{rf.Tape, rf.Tape, rf.Tape}, false)
					for _, rr := range res {
						all := append([]sim.Violation(nil), rr.Extra...)
						if rr.Violation != nil {
							all = append(all, *rr.Violation)
						}
						for vi := range all {
							if matchFinding(findingsFile{Findings: []finding{*f}}, chk.ID, &all[vi]) != nil {
								repro = "recorded history " + f.Replay + " reproduces it"
							}
						}
					}
				}
			}
		}
		fmt.Printf("KNOWN-FINDING: property=%s %s [%s; seen in %d runs of this batch; %s]\n", chk.ID, f.Text, f.ID, seen, repro)
	}
	for _, k := range sortedKeysInt(known) {
		p := strings.Split(k, "\x00")
		if p[1] == chk.ID {
			fmt.Printf("KNOWN-FINDING: property=%s %s [%s; %d runs]\n", chk.ID, p[2], p[0], known[k])
		} else {
			fmt.Printf("kgcheck: %d runs discarded: they hit known finding %s of property %s\n", known[k], p[0], p[1])
			ev.DiscardedKnown += known[k]
		}
	}
	ev.KnownFindingRuns = len(vios) - len(unknown)
	if len(vios) > 0 {
		bySig := map[string]int{}
		for _, v := range vios {
			bySig[v.res.Violation.Class+" | "+firstLine(v.res.Violation.Sig)]++
		}
		for _, k := range sortedKeysInt(bySig) {
			fmt.Printf("kgcheck: violating runs: %5d  %s\n", bySig[k], k)
		}
	}
	if len(unknown) > 0 {
		// report the first unknown violation of each class (shrunk), fail on all
		seen := map[string]bool{}
		for _, v := range unknown {
			key := v.res.Violation.Class
			if seen[key] {
				continue
			}
			seen[key] = true
			path, err := reportViolation(bi, chk, v.batch, v.res, v.bseed, shrinkOn)
			if err != nil {
				fmt.Fprintf(os.Stderr, "kgcheck: %v\n", err)
				if code == 0 {
					code = 2
				}
				continue
			}
			fmt.Printf("VIOLATION property=%s replay=%s\n", chk.ID, path)
			fmt.Printf("  class=%s sig=%s\n  %s\n", v.res.Violation.Class, v.res.Violation.Sig, firstLine(v.res.Violation.Msg))
			code = 1
		}
		ev.Violations = len(unknown)
	}
	if harnessCrash && code == 0 {
		code = 2
	}
	if len(hung) > 0 {
		for _, h := range hung {
			fmt.Fprintf(os.Stderr, "kgcheck: HUNG %s\n", h)
		}
		if code == 0 {
			code = 2
		}
	}
	ev.finish(time.Since(start).Seconds(), bi)
	if err := ev.write(filepath.Join(verifDir, "evidence", chk.ID+".json")); err != nil {
		fatal2("writing evidence: %v", err)
	}
	fmt.Printf("kgcheck: %s evaluations=%d distinct_nontrivial=%d violations=%d known=%d inconclusive=%d wall=%.1fs exit=%d\n",
		chk.ID, ev.Coverage.Evaluations, ev.Coverage.DistinctNontrivial, ev.Violations, ev.KnownFindingRuns, ev.Coverage.Inconclusive, time.Since(start).Seconds(), code)
	for _, w := range ev.Coverage.Warnings {
		fmt.Printf("kgcheck: WARNING %s\n", w)
	}
	return code
}

func firstLine(s string) string {
	if i := strings.Index(s, "\n"); i >= 0 {
		s = s[:i]
	}
	if len(s) > 400 {
		s = s[:400] + "..."
	}
	return s
}

func sortedKeysInt(m map[string]int) []string {
	ks := make([]string, 0, len(m))
	for k := range m {
		ks = append(ks, k)
	}
	sort.Strings(ks)
	return ks
}

// runTapes executes candidate tapes (replay mode) and returns results by index.
func runTapes(bi *buildInfo, prop string, b meta.Batch, tapes [][]uint32, keepTrace bool) map[int]sim.Result {
	per := b.PerProc
	if per <= 0 {
		per = 1
	}
	if spread := (len(tapes) + workers - 1) / workers; per > spread {
		per = spread
	}
	out := map[int]sim.Result{}
	var mu sync.Mutex
	var wg sync.WaitGroup
	sem := make(chan struct{}, workers)
	for i := 0; i < len(tapes); i += per {
		sp := spec{Property: prop, World: b.World, Profile: b.Profile, KeepTrace: keepTrace}
		for j := i; j < i+per && j < len(tapes); j++ {
			sp.Runs = append(sp.Runs, runSpec{Idx: j, Tape: tapes[j], Replay: true})
		}
		wg.Add(1)
		sem <- struct{}{}
		go func(sp spec) {
			defer wg.Done()
			defer func() { <-sem }()
			res, stderr, err := runProc(bi.Worker, sp, procWatchdog(len(sp.Runs)))
			mu.Lock()
			got := map[int]bool{}
			for _, r := range res {
				out[r.Idx] = r
				got[r.Idx] = true
			}
			if err != nil && !strings.HasPrefix(err.Error(), "watchdog") {
				for _, rs := range sp.Runs {
					if !got[rs.Idx] {
						msg, sig := crashSig(stderr)
						out[rs.Idx] = sim.Result{Idx: rs.Idx, Tape: rs.Tape, TapeLen: len(rs.Tape), Crashed: msg,
							Violation: &sim.Violation{Class: "crash", Sig: sig, Msg: msg + "\n" + tail(stderr, 40)}}
						break
					}
				}
			}
			mu.Unlock()
		}(sp)
	}
	wg.Wait()
	return out
}

func sameViolation(a, b *sim.Violation) bool {
	return a != nil && b != nil && a.Class == b.Class
}

// hasViolation reports whether result r shows a violation of v's class
// (as its main violation or among the extra ones).
func hasViolation(r sim.Result, v *sim.Violation) bool {
	if sameViolation(r.Violation, v) {
		return true
	}
	for i := range r.Extra {
		if sameViolation(&r.Extra[i], v) {
			return true
		}
	}
	return false
}

// shrink minimises the tape while the same violation class persists.
func shrink(bi *buildInfo, prop string, b meta.Batch, tp []uint32, v *sim.Violation) ([]uint32, int) {
	deadline := time.Now().Add(75 * time.Second)
	tried := 0
	best := append([]uint32(nil), tp...)
	try := func(cands [][]uint32) bool {
		if len(cands) == 0 || time.Now().After(deadline) || tried > 400 {
			return false
		}
		tried += len(cands)
		res := runTapes(bi, prop, b, cands, false)
		// prefer the smallest successful candidate (shorter, then more zeros)
		bestI := -1
		for i := range cands {
			r, ok := res[i]
			if !ok || !hasViolation(r, v) {
				continue
			}
			if bestI < 0 || less(cands[i], cands[bestI]) {
				bestI = i
			}
		}
		if bestI >= 0 && less(cands[bestI], best) {
			best = trimZeros(cands[bestI])
			return true
		}
		return false
	}
	for pass := 0; pass < 6 && time.Now().Before(deadline) && tried <= 400; pass++ {
		improved := false
		// 1. truncations
		var cands [][]uint32
		for _, f := range []int{0, 1, 2, 4, 8, 12, 14, 15} {
			l := len(best) * f / 16
			if l < len(best) {
				cands = append(cands, append([]uint32(nil), best[:l]...))
			}
		}
		if try(cands) {
			improved = true
		}
		// 2. zero blocks
		for bs := len(best) / 2; bs >= 1 && time.Now().Before(deadline); bs /= 2 {
			cands = nil
			for off := 0; off < len(best); off += bs {
				c := append([]uint32(nil), best...)
				nz := false
				for k := off; k < off+bs && k < len(c); k++ {
					if c[k] != 0 {
						nz = true
					}
					c[k] = 0
				}
				if nz {
					cands = append(cands, c)
				}
				if len(cands) >= 32 {
					break
				}
			}
			if try(cands) {
				improved = true
			}
		}
		// 3. delete blocks
		for _, bs := range []int{16, 8, 4, 2, 1} {
			if bs > len(best) || time.Now().After(deadline) {
				continue
			}
			cands = nil
			for off := 0; off+bs <= len(best); off += bs {
				c := append([]uint32(nil), best[:off]...)
				c = append(c, best[off+bs:]...)
				cands = append(cands, c)
				if len(cands) >= 32 {
					break
				}
			}
			if try(cands) {
				improved = true
			}
		}
		// 4. lower single values
		cands = nil
		for i := range best {
			if best[i] > 0 {
				c := append([]uint32(nil), best...)
				c[i] = best[i] / 2
				cands = append(cands, c)
				if best[i] > 1 {
					c2 := append([]uint32(nil), best...)
					c2[i] = best[i] - 1
					cands = append(cands, c2)
				}
			}
			if len(cands) >= 48 {
				break
			}
		}
		if try(cands) {
			improved = true
		}
		if !improved {
			break
		}
	}
	return best, tried
}

func trimZeros(t []uint32) []uint32 {
	n := len(t)
	for n > 0 && t[n-1] == 0 {
		n--
	}
	return append([]uint32(nil), t[:n]...)
}

func less(a, b []uint32) bool {
	a, b = trimZeros(a), trimZeros(b)
	if len(a) != len(b) {
		return len(a) < len(b)
	}
	var sa, sb uint64
	for _, v := range a {
		sa += uint64(v)
	}
	for _, v := range b {
		sb += uint64(v)
	}
	return sa < sb
}

func reportViolation(bi *buildInfo, chk *meta.Check, b meta.Batch, r sim.Result, bseed uint64, shrinkOn bool) (string, error) {
	tp := r.Tape
	note := ""
	if tp == nil {
		// process died before printing: regenerate the tape by replaying the seed is
		// not possible without the run; replay by seed instead.
		note = "worker died; replay by seed"
	}
	final := r
	if tp != nil && shrinkOn {
		small, tried := shrink(bi, chk.ID, b, tp, r.Violation)
		note = fmt.Sprintf("minimised %d -> %d draws in %d candidate runs", len(tp), len(small), tried)
		tp = small
	}
	if tp != nil {
		// fresh-process reproduction with trace. Worlds whose faults go through
		// net/http connection teardown are not bit-for-bit deterministic (runtime
		// select coins inside http.Transport): the replay is attempted several
		// times and the reproduction rate is recorded.
		const tries = 6
		var tapes [][]uint32
		for i := 0; i < tries; i++ {
			tapes = append(tapes, tp)
		}
		res := runTapes(bi, chk.ID, meta.Batch{World: b.World, Profile: b.Profile, PerProc: 1}, tapes, true)
		repro := 0
		hashes := map[string]int{}
		var first *sim.Result
		for i := 0; i < tries; i++ {
			ri, ok := res[i]
			if ok && hasViolation(ri, r.Violation) {
				repro++
				hashes[ri.TraceHash]++
				if first == nil {
					c := ri
					first = &c
				}
			}
		}
		if first == nil {
			return "", fmt.Errorf("REPLAY-DIVERGED: violation %s (idx %d seed %d) did not reproduce from its tape in %d fresh processes", r.Violation.Class, r.Idx, r.Seed, tries)
		}
		note += fmt.Sprintf("; reproduced in %d of %d fresh processes, %d distinct trace hashes", repro, tries, len(hashes))
		final = *first
	}
	rf := replayFile{Property: chk.ID, World: b.World, Profile: b.Profile, Seed: r.Seed, BatchSeed: bseed, Tape: tp,
		Violation: final.Violation, TraceHash: final.TraceHash, FaultTrace: final.Faults, Trace: final.Trace, RepoRev: repoRev(), Shrunk: note, OrigTape: r.TapeLen}
	path := filepath.Join(verifDir, "replays", fmt.Sprintf("%s-%d.json", chk.ID, r.Seed))
	bj, _ := json.MarshalIndent(rf, "", " ")
	if err := os.WriteFile(path, bj, 0o644); err != nil {
		return "", err
	}
	return path, nil
}

func doReplay(path string) int {
	b, err := os.ReadFile(path)
	if err != nil {
		fatal2("%v", err)
	}
	var rf replayFile
	if err := json.Unmarshal(b, &rf); err != nil {
		fatal2("%s: %v", path, err)
	}
	_ = os.MkdirAll(filepath.Join(verifDir, ".work", "runs"), 0o755)
	bi, err := ensureBuild(verifDir, repoDir)
	if err != nil {
		fatal2("build failed: %v", err)
	}
	var res map[int]sim.Result
	mb := meta.Batch{World: rf.World, Profile: rf.Profile, PerProc: 1}
	if rf.Tape != nil {
		// up to four attempts (see reportViolation on net/http select coins)
		all := runTapes(bi, rf.Property, mb, [][]uint32{rf.Tape, rf.Tape, rf.Tape, rf.Tape}, true)
		res = map[int]sim.Result{}
		for i := 0; i < 4; i++ {
			if ri, ok := all[i]; ok {
				if _, have := res[0]; !have {
					res[0] = ri
				}
				if rf.Violation != nil && ri.Violation != nil && ri.Violation.Class == rf.Violation.Class {
					res[0] = ri
					break
				}
			}
		}
	} else {
		sp := spec{Property: rf.Property, World: rf.World, Profile: rf.Profile, KeepTrace: true, Runs: []runSpec{{Idx: 0, Seed: rf.Seed}}}
		rs, stderr, err := runProc(bi.Worker, sp, 120*time.Second)
		res = map[int]sim.Result{}
		for _, r := range rs {
			res[r.Idx] = r
		}
		if _, ok := res[0]; !ok && err != nil {
			msg, sig := crashSig(stderr)
			res[0] = sim.Result{Crashed: msg, Violation: &sim.Violation{Class: "crash", Sig: sig, Msg: msg}}
		}
	}
	r, ok := res[0]
	if !ok {
		fatal2("replay produced no result")
	}
	for _, l := range r.Trace {
		fmt.Println("  " + l)
	}
	if r.Violation == nil {
		fmt.Printf("kgcheck: replay of %s: no violation on this tree (trace %s, recorded %s)\n", path, r.TraceHash, rf.TraceHash)
		return 0
	}
	fmt.Printf("kgcheck: replay class=%s sig=%s trace=%s (recorded trace=%s)\n  %s\n", r.Violation.Class, r.Violation.Sig, r.TraceHash, rf.TraceHash, r.Violation.Msg)
	if rf.Violation != nil && r.Violation.Class == rf.Violation.Class {
		if rf.TraceHash != "" && r.TraceHash != rf.TraceHash {
			fmt.Printf("kgcheck: note: same violation class but a different trace hash (tree or harness changed since the file was written?)\n")
		}
		fmt.Printf("VIOLATION property=%s replay=%s\n", rf.Property, path)
		return 1
	}
	fmt.Printf("kgcheck: REPLAY-DIVERGED: recorded class %v, got %s\n", rf.Violation, r.Violation.Class)
	return 2
}

// doDeterminism runs the same seeds several times in fresh processes under
// different load and compares trace hashes and verdicts.
func doDeterminism(chk *meta.Check, seed uint64, n int, onlyBatch string) int {
	_ = os.MkdirAll(filepath.Join(verifDir, ".work", "runs"), 0o755)
	bi, err := ensureBuild(verifDir, repoDir)
	if err != nil {
		fatal2("build failed: %v", err)
	}
	propSeed := seed ^ tape.HashString(chk.ID)
	bad := 0
	total := 0
	for bi2, b := range chk.Batches {
		if onlyBatch != "" && !strings.Contains(b.Profile, onlyBatch) {
			continue
		}
		bs := tape.Mix(propSeed, uint64(1000+bi2))
		var passes []map[int]sim.Result
		for _, wk := range []int{16, 4, 1, 16} {
			workers = wk
			bo := runBatch(bi, chk, b, n, bs, nil)
			m := map[int]sim.Result{}
			for _, r := range bo.results {
				m[r.Idx] = r
			}
			passes = append(passes, m)
			if wk == 1 && n > 60 {
				// the single-worker pass is slow: compare a prefix only
			}
		}
		for i := 0; i < n; i++ {
			total++
			r0, ok := passes[0][i]
			if !ok {
				continue
			}
			for p := 1; p < len(passes); p++ {
				r, ok := passes[p][i]
				if !ok {
					continue
				}
				v0, v1 := "", ""
				if r0.Violation != nil {
					v0 = r0.Violation.Class
				}
				if r.Violation != nil {
					v1 = r.Violation.Class
				}
				if r.TraceHash != r0.TraceHash || v0 != v1 || r.TapeHash != r0.TapeHash {
					bad++
					for li := 0; li < len(r0.Trace) || li < len(r.Trace); li++ {
						a, b := "<end>", "<end>"
						if li < len(r0.Trace) {
							a = r0.Trace[li]
						}
						if li < len(r.Trace) {
							b = r.Trace[li]
						}
						if a != b {
							lo := li - 3
							if lo < 0 {
								lo = 0
							}
							for _, l := range r0.Trace[lo:li] {
								fmt.Printf("      %s\n", l)
							}
							fmt.Printf("    first difference at line %d:\n      pass0: %s\n      pass%d: %s\n", li, a, p, b)
							break
						}
					}
					if d := os.Getenv("KG_DIVDIR"); d != "" {
						_ = os.WriteFile(filepath.Join(d, fmt.Sprintf("%s-%d-pass0.txt", b.Profile, i)), []byte(strings.Join(r0.Trace, "\n")), 0o644)
						_ = os.WriteFile(filepath.Join(d, fmt.Sprintf("%s-%d-pass%d.txt", b.Profile, i, p)), []byte(strings.Join(r.Trace, "\n")), 0o644)
					}
					fmt.Printf("DIVERGED %s/%s idx=%d seed=%d pass0(trace=%s tape=%s viol=%q) pass%d(trace=%s tape=%s viol=%q)\n", b.World, b.Profile, i, r0.Seed, r0.TraceHash, r0.TapeHash, v0, p, r.TraceHash, r.TapeHash, v1)
					break
				}
			}
		}
	}
	fmt.Printf("kgcheck: determinism %s: %d seeds x 4 passes (16/4/1/16 workers), %d diverged\n", chk.ID, total, bad)
	if bad > 0 {
		return 2
	}
	return 0
}
