package main

import (
	"encoding/json"
	"fmt"
	"os"
	"sort"

	"kgsim/meta"
	"kgsim/sim"
)

type batchStats struct {
	World         string  `json:"world"`
	Profile       string  `json:"profile"`
	FaultFree     bool    `json:"fault_free"`
	Runs          int     `json:"runs"`
	Nontrivial    int     `json:"nontrivial"`
	Inconclusive  int     `json:"inconclusive"`
	Violations    int     `json:"violations"`
	Steps         int     `json:"steps"`
	SimSeconds    float64 `json:"sim_seconds"`
	WorkerWallSec float64 `json:"worker_wall_s"`
}

type coverage struct {
	Evaluations        int                    `json:"evaluations"`
	DistinctNontrivial int                    `json:"distinct_nontrivial"`
	Rule               string                 `json:"rule"`
	Samples            []interface{}          `json:"samples"`
	Batches            []*batchStats          `json:"batches"`
	DistinctTraces     int                    `json:"distinct_trace_hashes"`
	DistinctTapes      int                    `json:"distinct_choice_sequences"`
	Steps              int                    `json:"driver_steps"`
	SimSeconds         float64                `json:"simulated_seconds"`
	RunsPerHour        float64                `json:"runs_per_hour"`
	FaultsInjected     map[string]int         `json:"faults_injected"`
	Probes             map[string]int         `json:"probes_hit"`
	ProbeRuns          map[string]int         `json:"probe_runs"`
	OracleEvaluations  map[string]int         `json:"oracle_evaluations"`
	Inconclusive       int                    `json:"inconclusive_runs"`
	InconclusiveWhy    map[string]int         `json:"inconclusive_reasons,omitempty"`
	RealComponents     []string               `json:"components_real_code"`
	StubComponents     []string               `json:"components_stub"`
	Instrumentation    map[string]interface{} `json:"instrumentation,omitempty"`
	Warnings           []string               `json:"warnings,omitempty"`
	Build              string                 `json:"build"`
	RepoRev            string                 `json:"repo_rev"`
}

type evidence struct {
	PropertyID       string   `json:"property_id"`
	Tier             string   `json:"tier"`
	Seed             int64    `json:"seed"`
	Level            string   `json:"level"`
	Coverage         coverage `json:"coverage"`
	Assumptions      []string `json:"assumptions"`
	WallS            float64  `json:"wall_s"`
	Violations       int      `json:"violations"`
	KnownFindingRuns int      `json:"known_finding_runs"`
	DiscardedKnown   int      `json:"discarded_known_crash"`

	chk     *meta.Check
	traces  map[string]bool
	ntTrace map[string]bool
	tapes   map[string]bool
	bstats  map[string]*batchStats
}

func newEvidence(chk *meta.Check, tier string, seed uint64) *evidence {
	return &evidence{PropertyID: chk.ID, Tier: tier, Seed: int64(seed), Level: "exploration", chk: chk,
		traces: map[string]bool{}, ntTrace: map[string]bool{}, tapes: map[string]bool{}, bstats: map[string]*batchStats{},
		Coverage: coverage{Rule: chk.Rule, FaultsInjected: map[string]int{}, Probes: map[string]int{}, ProbeRuns: map[string]int{},
			OracleEvaluations: map[string]int{}, InconclusiveWhy: map[string]int{}, RealComponents: chk.Real, StubComponents: chk.Stub},
		Assumptions: chk.Assume}
}

func (e *evidence) add(b meta.Batch, r *sim.Result) {
	c := &e.Coverage
	c.Evaluations++
	key := b.World + "/" + b.Profile
	bs := e.bstats[key]
	if bs == nil {
		bs = &batchStats{World: b.World, Profile: b.Profile, FaultFree: b.FaultFree}
		e.bstats[key] = bs
		c.Batches = append(c.Batches, bs)
	}
	bs.Runs++
	bs.Steps += r.Steps
	bs.SimSeconds += r.SimSeconds
	bs.WorkerWallSec += r.WallMs / 1000
	c.Steps += r.Steps
	c.SimSeconds += r.SimSeconds
	if r.TraceHash != "" {
		e.traces[key+r.TraceHash] = true
	}
	if r.TapeHash != "" {
		e.tapes[key+r.TapeHash] = true
	}
	if r.Nontrivial {
		bs.Nontrivial++
		if r.TraceHash != "" {
			e.ntTrace[key+r.TraceHash] = true
		}
		if len(c.Samples) < 3 && r.Sample != nil {
			c.Samples = append(c.Samples, map[string]interface{}{"world": b.World, "profile": b.Profile, "seed": r.Seed, "tape_len": r.TapeLen, "case": r.Sample})
		}
	}
	for k, v := range r.Faults {
		c.FaultsInjected[k] += v
	}
	for k, v := range r.Probes {
		c.Probes[k] += v
		if v > 0 {
			c.ProbeRuns[k]++
		}
	}
	for k, v := range r.Checks {
		c.OracleEvaluations[k] += v
	}
	if r.Inconclusive != "" {
		c.Inconclusive++
		bs.Inconclusive++
		c.InconclusiveWhy[firstLine(r.Inconclusive)]++
	}
	if r.Violation != nil {
		bs.Violations++
	}
}

func (e *evidence) finish(wall float64, bi *buildInfo) {
	c := &e.Coverage
	c.DistinctNontrivial = len(e.ntTrace)
	c.DistinctTraces = len(e.traces)
	c.DistinctTapes = len(e.tapes)
	if wall > 0 {
		c.RunsPerHour = float64(c.Evaluations) / wall * 3600
	}
	e.WallS = wall
	c.Build = bi.Hash
	c.RepoRev = repoRev()
	if len(e.chk.NeedInst) > 0 {
		ins := map[string]interface{}{}
		for _, r := range bi.Reports {
			ins[r.File] = map[string]interface{}{"yield_points": r.Yields, "lock_sites": r.Locks, "functions": len(r.Funcs), "missing": r.Missing}
		}
		c.Instrumentation = ins
	}
	if len(c.Samples) == 0 {
		c.Samples = []interface{}{"no non-trivial run in this batch"}
	}
	// a probe that never fired means the profile explores nothing of that kind
	var zero []string
	for k, v := range c.Probes {
		if v == 0 {
			zero = append(zero, k)
		}
	}
	sort.Strings(zero)
	for _, z := range zero {
		c.Warnings = append(c.Warnings, fmt.Sprintf("probe %q never fired in this run: the profile did not reach it", z))
	}
	if c.Evaluations > 0 && c.Inconclusive*5 > c.Evaluations {
		c.Warnings = append(c.Warnings, fmt.Sprintf("%d of %d runs inconclusive", c.Inconclusive, c.Evaluations))
	}
}

func (e *evidence) write(path string) error {
	b, err := json.MarshalIndent(e, "", " ")
	if err != nil {
		return err
	}
	return os.WriteFile(path, append(b, '\n'), 0o644)
}
