package main

import (
	"crypto/sha256"
	"encoding/hex"
	"encoding/json"
	"fmt"
	"io"
	"io/fs"
	"os"
	"os/exec"
	"path/filepath"
	"sort"
	"strings"
	"syscall"
	"time"

	"kgsim/instr"
	"kgsim/meta"
)

const goBin = "go1.26.8"

type buildInfo struct {
	Dir     string
	Worker  string
	Hash    string
	Reports []instr.Report
	Missing []string // instrumentation targets that no longer exist
	Cached  bool
	BuildS  float64
}

func goEnv() []string {
	env := os.Environ()
	env = append(env, "GOFLAGS=-mod=mod", "GOPROXY=off", "GOSUMDB=off", "GOTOOLCHAIN=local", "CGO_ENABLED=0")
	return env
}

func hashTree(h io.Writer, root string, skipDirs map[string]bool) error {
	var files []string
	err := filepath.WalkDir(root, func(p string, d fs.DirEntry, err error) error {
		if err != nil {
			return nil
		}
		name := d.Name()
		if d.IsDir() {
			if skipDirs[name] || (strings.HasPrefix(name, ".") && p != root) {
				return filepath.SkipDir
			}
			return nil
		}
		if strings.HasSuffix(name, ".go") || name == "go.mod" || name == "go.sum" {
			files = append(files, p)
		}
		return nil
	})
	if err != nil {
		return err
	}
	sort.Strings(files)
	for _, f := range files {
		b, err := os.ReadFile(f)
		if err != nil {
			continue
		}
		fmt.Fprintf(h, "%s %d\n", f, len(b))
		h.Write(b)
	}
	return nil
}

func copyTree(src, dst string) error {
	return filepath.WalkDir(src, func(p string, d fs.DirEntry, err error) error {
		if err != nil {
			return err
		}
		rel, _ := filepath.Rel(src, p)
		t := filepath.Join(dst, rel)
		if d.IsDir() {
			return os.MkdirAll(t, 0o755)
		}
		b, err := os.ReadFile(p)
		if err != nil {
			return err
		}
		return os.WriteFile(t, b, 0o644)
	})
}

// ensureBuild builds the worker from /repo's current working tree (hooks on,
// yield-instrumented overlay) unless a build of exactly this tree is cached.
func ensureBuild(verifDir, repoDir string) (*buildInfo, error) {
	harness := filepath.Join(verifDir, "harness")
	work := filepath.Join(verifDir, ".work")
	if err := os.MkdirAll(filepath.Join(work, "build"), 0o755); err != nil {
		return nil, err
	}
	h := sha256.New()
	fmt.Fprintf(h, "go=%s\n", goBin)
	if err := hashTree(h, repoDir, map[string]bool{"docs": true, "hack": true, "build": true}); err != nil {
		return nil, err
	}
	if err := hashTree(h, harness, map[string]bool{}); err != nil {
		return nil, err
	}
	sum := hex.EncodeToString(h.Sum(nil))[:20]
	bdir := filepath.Join(work, "build", sum)
	bi := &buildInfo{Dir: bdir, Worker: filepath.Join(bdir, "simworker.test"), Hash: sum}

	lock, err := os.OpenFile(filepath.Join(work, "build.lock"), os.O_CREATE|os.O_RDWR, 0o644)
	if err != nil {
		return nil, err
	}
	defer lock.Close()
	if err := syscall.Flock(int(lock.Fd()), syscall.LOCK_EX); err != nil {
		return nil, err
	}
	defer syscall.Flock(int(lock.Fd()), syscall.LOCK_UN)

	if b, err := os.ReadFile(filepath.Join(bdir, "instr.json")); err == nil {
		if _, err2 := os.Stat(bi.Worker); err2 == nil {
			_ = json.Unmarshal(b, &bi.Reports)
			bi.Cached = true
			bi.collectMissing()
			now := time.Now()
			_ = os.Chtimes(bdir, now, now)
			return bi, nil
		}
	}
	start := time.Now()
	tmp := bdir + ".tmp"
	os.RemoveAll(tmp)
	os.RemoveAll(bdir)
	if err := os.MkdirAll(filepath.Join(tmp, "ov"), 0o755); err != nil {
		return nil, err
	}
	// 1. instrument /repo files into an overlay
	ov, reps, err := instr.Tree(repoDir, filepath.Join(tmp, "ov"), meta.InstrTargets)
	if err != nil {
		return nil, fmt.Errorf("instrumenting: %v", err)
	}
	// 2. instrumented scratch copy of the maxinflight dependency
	cmd := exec.Command(goBin, "list", "-m", "-f", "{{.Dir}}", meta.GolibModule)
	cmd.Dir = harness
	cmd.Env = goEnv()
	outb, err := cmd.Output()
	if err != nil {
		return nil, fmt.Errorf("locating %s: %v", meta.GolibModule, err)
	}
	golibSrc := strings.TrimSpace(string(outb))
	golibDst := filepath.Join(tmp, "golib")
	if err := copyTree(golibSrc, golibDst); err != nil {
		return nil, fmt.Errorf("copying golib: %v", err)
	}
	gp := filepath.Join(golibDst, meta.GolibTarget.File)
	src, err := os.ReadFile(gp)
	if err != nil {
		return nil, err
	}
	gout, grep, err := instr.File(gp, src, meta.GolibTarget)
	if err != nil {
		return nil, fmt.Errorf("instrumenting golib: %v", err)
	}
	grep.File = meta.GolibModule + "/" + meta.GolibTarget.File
	reps = append(reps, grep)
	if err := os.WriteFile(gp, gout, 0o644); err != nil {
		return nil, err
	}
	// paths inside the final directory
	final := func(p string) string { return strings.Replace(p, tmp, bdir, 1) }
	ovFinal := map[string]string{}
	for k, v := range ov {
		ovFinal[k] = final(v)
	}
	ovJSON, _ := json.MarshalIndent(map[string]interface{}{"Replace": ovFinal}, "", " ")
	if err := os.WriteFile(filepath.Join(tmp, "overlay.json"), ovJSON, 0o644); err != nil {
		return nil, err
	}
	// 3. modfile = harness go.mod + replace of golib
	gm, err := os.ReadFile(filepath.Join(harness, "go.mod"))
	if err != nil {
		return nil, err
	}
	mod := string(gm)
	mod = strings.Replace(mod, "kgsimhook => ./simhook", "kgsimhook => "+filepath.Join(harness, "simhook"), 1)
	if repoDir != "/repo" {
		// KG_REPO: build against another checkout (scratch worktree, run snapshot)
		mod = strings.ReplaceAll(mod, "=> /repo/", "=> "+repoDir+"/")
		mod = strings.ReplaceAll(mod, "=> /repo\n", "=> "+repoDir+"\n")
	}
	mod += fmt.Sprintf("\nreplace %s => %s\n", meta.GolibModule, final(golibDst))
	if err := os.WriteFile(filepath.Join(tmp, "go.mod"), []byte(mod), 0o644); err != nil {
		return nil, err
	}
	if gs, err := os.ReadFile(filepath.Join(harness, "go.sum")); err == nil {
		_ = os.WriteFile(filepath.Join(tmp, "go.sum"), gs, 0o644)
	}
	repJSON, _ := json.MarshalIndent(reps, "", " ")
	if err := os.WriteFile(filepath.Join(tmp, "instr.json"), repJSON, 0o644); err != nil {
		return nil, err
	}
	if err := os.Rename(tmp, bdir); err != nil {
		return nil, err
	}
	// 4. compile
	args := []string{"test", "-c", "-tags", "verif", "-vet=off",
		"-overlay", filepath.Join(bdir, "overlay.json"),
		"-modfile", filepath.Join(bdir, "go.mod"),
		"-o", bi.Worker, "./worker"}
	cmd = exec.Command(goBin, args...)
	cmd.Dir = harness
	cmd.Env = goEnv()
	cb, err := cmd.CombinedOutput()
	if err != nil {
		os.Remove(filepath.Join(bdir, "instr.json"))
		return nil, fmt.Errorf("go %s failed: %v\n%s", strings.Join(args, " "), err, tail(string(cb), 60))
	}
	bi.Reports = reps
	bi.collectMissing()
	bi.BuildS = time.Since(start).Seconds()
	pruneBuilds(filepath.Join(work, "build"), 3, sum)
	return bi, nil
}

func (bi *buildInfo) collectMissing() {
	for _, r := range bi.Reports {
		for _, m := range r.Missing {
			bi.Missing = append(bi.Missing, r.File+":"+m)
		}
	}
}

func tail(s string, n int) string {
	lines := strings.Split(s, "\n")
	if len(lines) > n {
		lines = lines[len(lines)-n:]
	}
	return strings.Join(lines, "\n")
}

func pruneBuilds(dir string, keep int, current string) {
	ents, err := os.ReadDir(dir)
	if err != nil {
		return
	}
	type e struct {
		name string
		t    time.Time
	}
	var es []e
	for _, d := range ents {
		if !d.IsDir() {
			continue
		}
		info, err := d.Info()
		if err != nil {
			continue
		}
		es = append(es, e{d.Name(), info.ModTime()})
	}
	sort.Slice(es, func(i, j int) bool { return es[i].t.After(es[j].t) })
	kept := 0
	for _, x := range es {
		if x.name == current || kept < keep {
			kept++
			continue
		}
		os.RemoveAll(filepath.Join(dir, x.name))
	}
}
