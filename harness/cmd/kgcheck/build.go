package main

import (
	"crypto/sha256"
	"encoding/hex"
	"encoding/json"
	"fmt"
	"io"
	"io/fs"
	"os"
	"os/exec"
	"path/filepath"
	"sort"
	"strings"
	"syscall"
	"time"

	"kgsim/instr"
	"kgsim/meta"
)

const goBin = "go1.26.8"

type buildInfo struct {
	Dir     string
	Worker  string
	Hash    string
	Reports []instr.Report
	Missing []string // instrumentation targets that no longer exist
	Cached  bool
	BuildS  float64
}

func goEnv() []string {
	env := os.Environ()
	env = append(env, "GOFLAGS=-mod=mod", "GOPROXY=off", "GOSUMDB=off", "GOTOOLCHAIN=local", "CGO_ENABLED=0")
	return env
}

func hashTree(h io.Writer, root string, skipDirs map[string]bool) error {
	var files []string
	err := filepath.WalkDir(root, func(p string, d fs.DirEntry, err error) error {
		if err != nil {
			return nil
		}
		name := d.Name()
		if d.IsDir() {
			if skipDirs[name] || (strings.HasPrefix(name, ".") && p != root) {
				return filepath.SkipDir
			}
			return nil
		}
		if strings.HasSuffix(name, ".go") || name == "go.mod" || name == "go.sum" {
			files = append(files, p)
		}
		return nil
	})
	if err != nil {
		return err
	}
	sort.Strings(files)
	for _, f := range files {
		b, err := os.ReadFile(f)
		if err != nil {
			continue
		}
		fmt.Fprintf(h, "%s %d\n", f, len(b))
		h.Write(b)
	}
	return nil
}

func copyTree(src, dst string) error {
	return filepath.WalkDir(src, func(p string, d fs.DirEntry, err error) error {
		if err != nil {
			return err
		}
		rel, _ := filepath.Rel(src, p)
		t := filepath.Join(dst, rel)
		if d.IsDir() {
			return os.MkdirAll(t, 0o755)
		}
		b, err := os.ReadFile(p)
		if err != nil {
			return err
		}
		return os.WriteFile(t, b, 0o644)
	})
}

// ensureBuild builds the worker from /repo's current working tree (hooks on,
// yield-instrumented overlay) unless a build of exactly this tree is cached.
func ensureBuild(verifDir, repoDir string) (*buildInfo, error) {
	harness := filepath.Join(verifDir, "harness")
	work := filepath.Join(verifDir, ".work")
	if err := os.MkdirAll(filepath.Join(work, "build"), 0o755); err != nil {
		return nil, err
	}
	h := sha256.New()
	fmt.Fprintf(h, "go=%s\n", goBin)
	if err := hashTree(h, repoDir, map[string]bool{"docs": true, "hack": true, "build": true}); err != nil {
		return nil, err
	}
	if err := hashTree(h, harness, map[string]bool{}); err != nil {
		return nil, err
	}
	sum := hex.EncodeToString(h.Sum(nil))[:20]
	bdir := filepath.Join(work, "build", sum)
	bi := &buildInfo{Dir: bdir, Worker: filepath.Join(bdir, "simworker.test"), Hash: sum}

	lock, err := os.OpenFile(filepath.Join(work, "build.lock"), os.O_CREATE|os.O_RDWR, 0o644)
	if err != nil {
		return nil, err
	}
	defer lock.Close()
	if err := syscall.Flock(int(lock.Fd()), syscall.LOCK_EX); err != nil {
		return nil, err
	}
	defer syscall.Flock(int(lock.Fd()), syscall.LOCK_UN)

	if b, err := os.ReadFile(filepath.Join(bdir, "instr.json")); err == nil {
		if _, err2 := os.Stat(bi.Worker); err2 == nil {
			_ = json.Unmarshal(b, &bi.Reports)
			bi.Cached = true
			bi.collectMissing()
			now := time.Now()
			_ = os.Chtimes(bdir, now, now)
			return bi, nil
		}
	}
	start := time.Now()
	tmp := bdir + ".tmp"
	os.RemoveAll(tmp)
	os.RemoveAll(bdir)
	if err := os.MkdirAll(filepath.Join(tmp, "ov"), 0o755); err != nil {
		return nil, err
	}
	// 1. instrument /repo files into an overlay
	ov, reps, err := instr.Tree(repoDir, filepath.Join(tmp, "ov"), meta.InstrTargets)
	if err != nil {
		return nil, fmt.Errorf("instrumenting: %v", err)
	}
	// 1a. files that exist in the worker build only
	for rel, content := range meta.OverlayAdd {
		dst := filepath.Join(tmp, "ov", "add__"+strings.ReplaceAll(rel, "/", "__"))
		if err := os.WriteFile(dst, []byte(content), 0o644); err != nil {
			return nil, err
		}
		ov[filepath.Join(repoDir, rel)] = dst
		reps = append(reps, instr.Report{File: rel, Funcs: []string{"added file (worker build only)"}})
	}
	// 1b. the simulator owns the scheduler. Inside a synctest bubble the Go
	// runtime flips coins of its own: it orders timers that fire at the same
	// fake instant at random (on purpose), polls the ready cases of a select in
	// random order, starts map iterations at random offsets, and its monitor
	// thread takes a goroutine off the processor once 10 ms of wall-clock time
	// have gone by (which depends on the load of the machine). The worker is
	// built with a runtime in which, for goroutines of a bubble, those coins
	// come from a PRNG that belongs to the bubble (so one run = one sequence),
	// and in which the wall-clock time slice is "never"; garbage collection is
	// off in those workers (see runProc). Nothing outside the worker binary is
	// built this way.
	rov, err := patchRuntime(filepath.Join(tmp, "ov"))
	if err != nil {
		return nil, fmt.Errorf("runtime overlay: %v", err)
	}
	for k, v := range rov {
		ov[k] = v
		reps = append(reps, instr.Report{File: "GOROOT/src/runtime/" + filepath.Base(k), Funcs: []string{"kgsim runtime seam"}})
	}
	// 1c. literal patches in dependency modules: files of the module cache cannot be
	// overlaid, so each such module is copied and replaced in the modfile (step 3)
	modReplace := map[string]string{}
	for mod, files := range meta.ModulePatches {
		cmd := exec.Command(goBin, "list", "-m", "-f", "{{.Dir}}", mod)
		cmd.Dir = harness
		cmd.Env = goEnv()
		outb, err := cmd.Output()
		if err != nil {
			return nil, fmt.Errorf("locating %s: %v", mod, err)
		}
		mdir := strings.TrimSpace(string(outb))
		dstDir := filepath.Join(tmp, "mod_"+strings.NewReplacer("/", "_", ".", "_").Replace(mod))
		if err := copyTree(mdir, dstDir); err != nil {
			return nil, fmt.Errorf("copying %s: %v", mod, err)
		}
		for f, prs := range files {
			fp := filepath.Join(dstDir, f)
			b, err := os.ReadFile(fp)
			if err != nil {
				return nil, err
			}
			src := string(b)
			for _, pr := range prs {
				if strings.Count(src, pr[0]) != 1 {
					return nil, fmt.Errorf("%s/%s: expected exactly one occurrence of %q", mod, f, pr[0])
				}
				src = strings.Replace(src, pr[0], pr[1], 1)
			}
			_ = os.Chmod(fp, 0o644)
			if err := os.WriteFile(fp, []byte(src), 0o644); err != nil {
				return nil, err
			}
			reps = append(reps, instr.Report{File: mod + "/" + f, Funcs: []string{"kgsim literal patch"}})
		}
		modReplace[mod] = dstDir
	}
	// 2. instrumented scratch copy of the maxinflight dependency
	cmd := exec.Command(goBin, "list", "-m", "-f", "{{.Dir}}", meta.GolibModule)
	cmd.Dir = harness
	cmd.Env = goEnv()
	outb, err := cmd.Output()
	if err != nil {
		return nil, fmt.Errorf("locating %s: %v", meta.GolibModule, err)
	}
	golibSrc := strings.TrimSpace(string(outb))
	golibDst := filepath.Join(tmp, "golib")
	if err := copyTree(golibSrc, golibDst); err != nil {
		return nil, fmt.Errorf("copying golib: %v", err)
	}
	gp := filepath.Join(golibDst, meta.GolibTarget.File)
	src, err := os.ReadFile(gp)
	if err != nil {
		return nil, err
	}
	gout, grep, err := instr.File(gp, src, meta.GolibTarget)
	if err != nil {
		return nil, fmt.Errorf("instrumenting golib: %v", err)
	}
	grep.File = meta.GolibModule + "/" + meta.GolibTarget.File
	reps = append(reps, grep)
	if err := os.WriteFile(gp, gout, 0o644); err != nil {
		return nil, err
	}
	// paths inside the final directory
	final := func(p string) string { return strings.Replace(p, tmp, bdir, 1) }
	ovFinal := map[string]string{}
	for k, v := range ov {
		ovFinal[k] = final(v)
	}
	ovJSON, _ := json.MarshalIndent(map[string]interface{}{"Replace": ovFinal}, "", " ")
	if err := os.WriteFile(filepath.Join(tmp, "overlay.json"), ovJSON, 0o644); err != nil {
		return nil, err
	}
	// 3. modfile = harness go.mod + replace of golib
	gm, err := os.ReadFile(filepath.Join(harness, "go.mod"))
	if err != nil {
		return nil, err
	}
	mod := string(gm)
	mod = strings.Replace(mod, "kgsimhook => ./simhook", "kgsimhook => "+filepath.Join(harness, "simhook"), 1)
	if repoDir != "/repo" {
		// KG_REPO: build against another checkout (scratch worktree, run snapshot)
		mod = strings.ReplaceAll(mod, "=> /repo/", "=> "+repoDir+"/")
		mod = strings.ReplaceAll(mod, "=> /repo\n", "=> "+repoDir+"\n")
	}
	mod += fmt.Sprintf("\nreplace %s => %s\n", meta.GolibModule, final(golibDst))
	for m, d := range modReplace {
		// drop an existing replace of the module, then point it at the patched copy
		var keep []string
		for _, l := range strings.Split(mod, "\n") {
			if strings.HasPrefix(strings.TrimSpace(l), m+" => ") || strings.HasPrefix(strings.TrimSpace(l), "replace "+m+" => ") {
				continue
			}
			keep = append(keep, l)
		}
		mod = strings.Join(keep, "\n") + fmt.Sprintf("\nreplace %s => %s\n", m, final(d))
	}
	if err := os.WriteFile(filepath.Join(tmp, "go.mod"), []byte(mod), 0o644); err != nil {
		return nil, err
	}
	if gs, err := os.ReadFile(filepath.Join(harness, "go.sum")); err == nil {
		_ = os.WriteFile(filepath.Join(tmp, "go.sum"), gs, 0o644)
	}
	repJSON, _ := json.MarshalIndent(reps, "", " ")
	if err := os.WriteFile(filepath.Join(tmp, "instr.json"), repJSON, 0o644); err != nil {
		return nil, err
	}
	if err := os.Rename(tmp, bdir); err != nil {
		return nil, err
	}
	// 4. compile
	args := []string{"test", "-c", "-tags", "verif", "-vet=off",
		"-overlay", filepath.Join(bdir, "overlay.json"),
		"-modfile", filepath.Join(bdir, "go.mod"),
		"-o", bi.Worker, "./worker"}
	cmd = exec.Command(goBin, args...)
	cmd.Dir = harness
	cmd.Env = goEnv()
	cb, err := cmd.CombinedOutput()
	if err != nil {
		os.Remove(filepath.Join(bdir, "instr.json"))
		return nil, fmt.Errorf("go %s failed: %v\n%s", strings.Join(args, " "), err, tail(string(cb), 60))
	}
	bi.Reports = reps
	bi.collectMissing()
	bi.BuildS = time.Since(start).Seconds()
	pruneBuilds(filepath.Join(work, "build"), 3, sum)
	return bi, nil
}

func (bi *buildInfo) collectMissing() {
	for _, r := range bi.Reports {
		for _, m := range r.Missing {
			bi.Missing = append(bi.Missing, r.File+":"+m)
		}
	}
}

func tail(s string, n int) string {
	lines := strings.Split(s, "\n")
	if len(lines) > n {
		lines = lines[len(lines)-n:]
	}
	return strings.Join(lines, "\n")
}

func pruneBuilds(dir string, keep int, current string) {
	ents, err := os.ReadDir(dir)
	if err != nil {
		return
	}
	type e struct {
		name string
		t    time.Time
	}
	var es []e
	for _, d := range ents {
		if !d.IsDir() {
			continue
		}
		info, err := d.Info()
		if err != nil {
			continue
		}
		es = append(es, e{d.Name(), info.ModTime()})
	}
	sort.Slice(es, func(i, j int) bool { return es[i].t.After(es[j].t) })
	kept := 0
	for _, x := range es {
		if x.name == current || kept < keep {
			kept++
			continue
		}
		os.RemoveAll(filepath.Join(dir, x.name))
	}
}

// runtimePatches: file of the toolchain's runtime package -> textual replacements.
var runtimePatches = map[string][][2]string{
	// sync.Mutex switches to starvation mode (direct hand-off to the oldest waiter) when
	// a waiter has waited for more than 1 ms of REAL time (runtime_nanotime is not the
	// bubble's clock): on a loaded machine a contended lock - preemption fuzzing makes
	// goroutines give up the processor while they hold one - then changes who gets it
	// next. Never starving keeps one seed one execution; fairness is not a property here.
	"internal/sync/mutex.go": {
		{"\tstarvationThresholdNs = 1e6\n", "\tstarvationThresholdNs = 1 << 62 // kgsim: never (see cmd/kgcheck/build.go)\n"},
	},
	"proc.go": {
		{"const forcePreemptNS = 10 * 1000 * 1000 // 10ms", "const forcePreemptNS = 1 << 62 // kgsim: never (see cmd/kgcheck/build.go)"},
		// sysmon takes the P away from a goroutine that has been in a system call for
		// more than one sysmon tick (20 us - 10 ms of REAL time) and lets other goroutines
		// run meanwhile; on a loaded machine even getpid can take that long. The worlds do
		// no blocking system calls, so the P stays with the caller (for up to 10 s).
		// Goroutines that do not belong to a bubble (started by init functions, by the
		// test framework, by the world before it enters its bubble) wake up when real
		// time or the operating system says so. Two rules of the scheduler let such a
		// wake-up change the order of the bubble's goroutines: a woken goroutine takes
		// the processor's "next" slot and sends the one that held it to the back of the
		// queue, and every 61st scheduling round looks at the global queue (where
		// runtime.Gosched puts a goroutine) before the local one - so one round more or
		// less moves that moment. In the worker a goroutine without a bubble never takes
		// the "next" slot, and the global queue is looked at when the local one is empty.
		{"\trunqput(mp.p.ptr(), gp, next)\n", "\trunqput(mp.p.ptr(), gp, next && gp.bubble != nil) // kgsim: see cmd/kgcheck/build.go\n"},
		{"\tif pp.schedtick%61 == 0 && !sched.runq.empty() {\n", "\tif false && pp.schedtick%61 == 0 && !sched.runq.empty() { // kgsim: see cmd/kgcheck/build.go\n"},
		{"\t\tif runqempty(pp) && sched.nmspinning.Load()+sched.npidle.Load() > 0 && pd.syscallwhen+10*1000*1000 > now {\n", "\t\tif pd.syscallwhen+10*1000*1000*1000 > now { // kgsim: see cmd/kgcheck/build.go\n"},
	},
	"time.go": {
		{"\t\t\tt.rand = cheaprand()\n", "\t\t\tt.rand = kgBubbleRand32(getg().bubble) // kgsim: the bubble's own coin\n"},
	},
	"select.go": {
		{"\t\tj := cheaprandn(uint32(norder + 1))\n", "\t\tj := kgSelectRandn(uint32(norder + 1)) // kgsim: the bubble's own coin\n"},
	},
	"rand.go": {
		{"func maps_rand() uint64 {\n\treturn rand()\n}", "func maps_rand() uint64 {\n\tif gp := getg(); gp != nil && gp.bubble != nil {\n\t\treturn kgBubbleRand64(gp.bubble) // kgsim: the bubble's own coin\n\t}\n\treturn rand()\n}"},
		// runtime.rand itself (seeds of sync.Map's hash trie, math/rand/v2's global source, ...) for bubble goroutines
		{"\tmp := getg().m\n\tc := &mp.chacha8\n\tfor {\n", "\tif gp := getg(); gp.bubble != nil && gp.m.curg == gp {\n\t\treturn kgBubbleRand64(gp.bubble) // kgsim: the bubble's own coin\n\t}\n\tmp := getg().m\n\tc := &mp.chacha8\n\tfor {\n"},
		// one fixed process-wide seed: the hash functions' key schedule (string and integer keys hash the same
		// in every worker process, so the layout of maps and hash tries follows the program only) and the seeds
		// of maps created before the bubble exists
		{"\tglobalRand.state.Init(*seed)\n", "\tfor i := range seed {\n\t\tseed[i] = byte(0xa5 ^ i) // kgsim: fixed (see cmd/kgcheck/build.go)\n\t}\n\tglobalRand.state.Init(*seed)\n"},
	},
	"synctest.go": {
		{"\tactive  int // other sources of activity\n}", "\tactive  int // other sources of activity\n\n\tkgrand uint64 // kgsim: state of the bubble's own PRNG\n}\n\n" + kgRuntimeFuncs},
	},
}

const kgRuntimeFuncs = `// KgSchedTicks: the current P's scheduler and syscall ticks (debugging aid of the
// determinism self-test: the first yield at which two executions of one seed
// disagree on them is where something else got the processor).
func KgSchedTicks() (uint32, uint32) {
	pp := getg().m.p.ptr()
	return pp.schedtick, pp.syscalltick
}

// kgBubbleRand64 is the PRNG of a bubble (splitmix64). Goroutines of a bubble
// run one at a time in the worker (GOMAXPROCS=1), so the sequence of calls is a
// function of the program.
//
//go:nosplit
func kgBubbleRand64(b *synctestBubble) uint64 {
	if b == nil {
		return uint64(cheaprand())<<32 | uint64(cheaprand())
	}
	b.kgrand += 0x9e3779b97f4a7c15
	z := b.kgrand
	z = (z ^ (z >> 30)) * 0xbf58476d1ce4e5b9
	z = (z ^ (z >> 27)) * 0x94d049bb133111eb
	return z ^ (z >> 31)
}

func kgBubbleRand32(b *synctestBubble) uint32 { return uint32(kgBubbleRand64(b) >> 32) }

func kgSelectRandn(n uint32) uint32 {
	if gp := getg(); gp != nil && gp.bubble != nil {
		return uint32((uint64(kgBubbleRand32(gp.bubble)) * uint64(n)) >> 32)
	}
	return cheaprandn(n)
}`

// patchRuntime writes patched copies of the toolchain's runtime files into dir
// and returns the overlay entries (original path -> patched copy).
func patchRuntime(dir string) (map[string]string, error) {
	cmd := exec.Command(goBin, "env", "GOROOT")
	cmd.Env = goEnv()
	out, err := cmd.Output()
	if err != nil {
		return nil, err
	}
	rt := filepath.Join(strings.TrimSpace(string(out)), "src", "runtime")
	ov := map[string]string{}
	for name, reps := range runtimePatches {
		p := filepath.Join(rt, name)
		if strings.Contains(name, "/") { // relative to GOROOT/src
			p = filepath.Join(filepath.Dir(rt), name)
		}
		b, err := os.ReadFile(p)
		if err != nil {
			return nil, err
		}
		src := string(b)
		for _, r := range reps {
			if strings.Count(src, r[0]) != 1 {
				return nil, fmt.Errorf("%s: expected exactly one occurrence of %q", p, r[0])
			}
			src = strings.Replace(src, r[0], r[1], 1)
		}
		dst := filepath.Join(dir, "runtime_"+strings.ReplaceAll(name, "/", "_"))
		if err := os.WriteFile(dst, []byte(src), 0o644); err != nil {
			return nil, err
		}
		ov[p] = dst
	}
	return ov, nil
}
