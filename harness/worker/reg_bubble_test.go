package worker

import (
	"testing"
	"testing/synctest"
	"time"

	utilruntime "k8s.io/apimachinery/pkg/util/runtime"

	"kgsim/sim"
	"kgsim/worlds/gw"
	"kgsim/worlds/rl"
	"kgsim/worlds/store"
	"kgsim/worlds/tb"
)

// inBubble runs fn inside a synctest bubble. With single=true the process
// exits from inside the bubble once fn returns.
func inBubble(t *testing.T, single bool, fn func()) {
	synctest.Test(t, func(t *testing.T) {
		// The bubble's clock starts at 2000-01-01. Package-level values captured
		// at process start (e.g. the error back-off of apimachinery's
		// HandleError) hold real timestamps, and "time since then" would be
		// negative. Jump to a fixed instant after any real date.
		time.Sleep(time.Until(time.Date(2030, 1, 1, 0, 0, 0, 0, time.UTC)))
		// apimachinery's HandleError rate limiter sleeps 1 ms while holding a
		// mutex; a second goroutine then blocks on that mutex non-durably and
		// the bubble's clock can never advance. Keep the logging handler only.
		if len(utilruntime.ErrorHandlers) > 1 {
			utilruntime.ErrorHandlers = utilruntime.ErrorHandlers[:1]
		}
		fn()
		if single && exitNow != nil {
			exitNow()
		}
	})
}

func init() {
	gwReg := func(prefix string, fn func(*sim.Run)) {
		register("gw", prefix, true, func(t *testing.T, r *sim.Run) { gw.PreBubble(); inBubble(t, true, func() { fn(r) }) })
	}
	gwReg("c12p", gw.RunC12)
	gwReg("c03", gw.RunC03)
	gwReg("c03p", gw.RunC03)
	gwReg("c04", gw.RunC04)
	gwReg("c02", gw.RunC02)
	gwReg("c01", gw.RunC01)
	gwReg("c15", gw.RunC15)
	gwReg("c15p", gw.RunC15)
	gwReg("c12", gw.RunC12)
	gwReg("c11", gw.RunC11)
	gwReg("c11p", gw.RunC11)
	gwReg("c10", gw.RunC10)
	gwReg("c10p", gw.RunC10)
	gwReg("c16", gw.RunC16)
	gwReg("c05h", gw.RunC05HTTP)
	gwReg("c06h", gw.RunC06HTTP)
	gwReg("c14h", gw.RunC14HTTP)
	register("gw", "smoke", true, func(t *testing.T, r *sim.Run) { gw.PreBubble(); inBubble(t, true, func() { gw.RunSmoke(r) }) })
	register("rl", "c07", true, func(t *testing.T, r *sim.Run) { inBubble(t, true, func() { rl.RunC07(r) }) })
	register("rl", "c09t", true, func(t *testing.T, r *sim.Run) { inBubble(t, true, func() { rl.RunC09ITB(r) }) })
	register("rl", "c09i", true, func(t *testing.T, r *sim.Run) { inBubble(t, true, func() { rl.RunC09I(r) }) })
	register("rl", "c19h", true, func(t *testing.T, r *sim.Run) { inBubble(t, true, func() { rl.RunC19H(r) }) })
	register("rl", "c16l", true, func(t *testing.T, r *sim.Run) { inBubble(t, true, func() { rl.RunC16L(r) }) })
	register("rl", "c08tb", true, func(t *testing.T, r *sim.Run) { inBubble(t, true, func() { rl.RunC08TB(r) }) })
	register("rl", "c18o", true, func(t *testing.T, r *sim.Run) { inBubble(t, true, func() { rl.RunC18O(r) }) })
	register("rl", "c13i", true, func(t *testing.T, r *sim.Run) { inBubble(t, true, func() { rl.RunC13I(r) }) })
	register("rl", "c07h", true, func(t *testing.T, r *sim.Run) { inBubble(t, true, func() { rl.RunC07H(r) }) })
	register("rl", "c07o", true, func(t *testing.T, r *sim.Run) { inBubble(t, true, func() { rl.RunC07Overlap(r) }) })
	register("rl", "c13", true, func(t *testing.T, r *sim.Run) { inBubble(t, true, func() { rl.RunC13(r) }) })
	register("rl", "c18", true, func(t *testing.T, r *sim.Run) { inBubble(t, true, func() { rl.RunC18(r) }) })
	register("rlstub", "c09", true, func(t *testing.T, r *sim.Run) { inBubble(t, true, func() { rl.RunC09(r) }) })
	register("store", "c19", true, func(t *testing.T, r *sim.Run) { inBubble(t, true, func() { store.RunC19(r) }) })
	register("tb", "c06i", false, func(t *testing.T, r *sim.Run) { inBubble(t, false, func() { tb.RunC06I(r) }) })
	register("tb", "c06", false, func(t *testing.T, r *sim.Run) { inBubble(t, false, func() { tb.RunC06(r) }) })
}
