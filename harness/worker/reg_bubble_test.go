package worker

import (
	"testing"
	"testing/synctest"

	"kgsim/sim"
	"kgsim/worlds/store"
	"kgsim/worlds/tb"
)

// inBubble runs fn inside a synctest bubble. With single=true the process
// exits from inside the bubble once fn returns.
func inBubble(t *testing.T, single bool, fn func()) {
	synctest.Test(t, func(t *testing.T) {
		fn()
		if single && exitNow != nil {
			exitNow()
		}
	})
}

func init() {
	register("store", "c19", true, func(t *testing.T, r *sim.Run) { inBubble(t, true, func() { store.RunC19(r) }) })
	register("tb", "c06", false, func(t *testing.T, r *sim.Run) { inBubble(t, false, func() { tb.RunC06(r) }) })
}
