// The worker is a compiled test binary (testing/synctest needs *testing.T):
//
//	simworker.test -test.run '^TestWorker$' -kg.in spec.json -kg.out results.jsonl
//
// It executes the runs listed in the spec and writes one JSON line per run.
package worker

import (
	"encoding/json"
	"flag"
	"fmt"
	"io"
	"os"
	"runtime"
	"runtime/debug"
	rtrace "runtime/trace"
	"strings"
	"syscall"
	"testing"
	"time"

	"k8s.io/klog"

	"kgsim/sim"
	"kgsim/tape"
)

var (
	inFlag  = flag.String("kg.in", "", "spec file")
	outFlag = flag.String("kg.out", "", "result file (JSON lines)")
)

type RunSpec struct {
	Idx  int      `json:"idx"`
	Seed uint64   `json:"seed"`
	Tape []uint32 `json:"tape,omitempty"`
	// Replay is true when Tape must be used instead of the seed.
	Replay bool `json:"replay,omitempty"`
}

type Spec struct {
	Property  string            `json:"property"`
	World     string            `json:"world"`
	Profile   string            `json:"profile"`
	Opts      map[string]string `json:"opts,omitempty"`
	KeepTrace bool              `json:"keep_trace,omitempty"`
	Runs      []RunSpec         `json:"runs"`
}

// WorldFn executes one run. Bubble worlds enter synctest themselves.
type WorldFn func(t *testing.T, r *sim.Run)

type worldDef struct {
	fn     WorldFn
	single bool // one run per process (world leaves goroutines/bubble behind)
}

var worlds = map[string]worldDef{}

// exitNow is set for single-run worlds: called inside the bubble when the run
// is over, it writes the result and leaves the process (goroutines of the
// shipped code that never exit would keep the bubble alive for ever).
var exitNow func()

func register(world, profilePrefix string, single bool, fn WorldFn) {
	worlds[world+"/"+profilePrefix] = worldDef{fn, single}
}

func lookup(world, profile string) (worldDef, bool) {
	p := profile
	if i := strings.Index(p, "-"); i >= 0 {
		p = p[:i]
	}
	d, ok := worlds[world+"/"+p]
	return d, ok
}

func TestMain(m *testing.M) {
	sim.DebugTicks = runtime.KgSchedTicks
	fs := flag.NewFlagSet("klog", flag.ContinueOnError)
	klog.InitFlags(fs)
	_ = fs.Set("logtostderr", "false")
	_ = fs.Set("alsologtostderr", "false")
	_ = fs.Set("stderrthreshold", "FATAL")
	if os.Getenv("KG_KLOG_V") != "" {
		_ = fs.Set("logtostderr", "true")
		_ = fs.Set("v", os.Getenv("KG_KLOG_V"))
	} else {
		klog.SetOutput(io.Discard)
	}
	os.Exit(m.Run())
}

func TestWorker(t *testing.T) {
	if *inFlag == "" {
		t.Skip("no spec")
	}
	raw, err := os.ReadFile(*inFlag)
	if err != nil {
		t.Fatal(err)
	}
	var spec Spec
	if err := json.Unmarshal(raw, &spec); err != nil {
		t.Fatal(err)
	}
	out, err := os.OpenFile(*outFlag, os.O_CREATE|os.O_WRONLY|os.O_APPEND, 0o644)
	if err != nil {
		t.Fatal(err)
	}
	if os.Getenv("KG_DUMPG") != "" { // debugging aid: which goroutines exist before the first run
		buf := make([]byte, 1<<20)
		fmt.Fprintf(os.Stderr, "%s\n", buf[:runtime.Stack(buf, true)])
	}
	def, ok := lookup(spec.World, spec.Profile)
	if !ok {
		fmt.Fprintf(os.Stderr, "unknown world/profile %s/%s\n", spec.World, spec.Profile)
		syscall.Exit(3)
	}
	emit := func(res *sim.Result) {
		b, _ := json.Marshal(res)
		b = append(b, '\n')
		out.Write(b)
	}
	for i, rs := range spec.Runs {
		if def.single && i > 0 {
			break
		}
		var tp *tape.Tape
		if rs.Replay {
			tp = tape.Replay(rs.Tape)
		} else {
			tp = tape.New(rs.Seed)
		}
		r := sim.NewRun(tp, spec.Profile, spec.Opts, spec.KeepTrace)
		res := &sim.Result{Property: spec.Property, World: spec.World, Profile: spec.Profile, Idx: rs.Idx, Seed: rs.Seed}
		start := time.Now()
		finish := func() {
			r.Finish(res)
			res.WallMs = float64(time.Since(start).Microseconds()) / 1000
			emit(res)
		}
		if def.single {
			// the world ends the process from inside its bubble
			exitNow = func() {
				if os.Getenv("KG_DUMPG") == "2" { // which goroutines exist at the end of the run
					buf := make([]byte, 8<<20)
					fmt.Fprintf(os.Stderr, "%s\n", buf[:runtime.Stack(buf, true)])
				}
				finish()
				out.Sync()
				out.Close()
				rtrace.Stop() // flushes -test.trace, if any (debugging aid)
				syscall.Exit(0)
			}
		}
		func() {
			defer func() {
				if p := recover(); p != nil {
					st := string(debug.Stack())
					res.Crashed = fmt.Sprintf("%v @ %s", p, sim.TopRepoFrame(st))
					if os.Getenv("KG_DEBUG") != "" {
						fmt.Fprintln(os.Stderr, st)
					}
				}
			}()
			def.fn(t, r)
		}()
		finish()
	}
	out.Sync()
	out.Close()
	syscall.Exit(0)
}
