package worker

import (
	"testing"

	"kgsim/sim"
	"kgsim/worlds/ilv"
)

func init() {
	register("ilv", "c08", false, func(t *testing.T, r *sim.Run) { ilv.RunC08(r) })
	register("ilv", "c05", false, func(t *testing.T, r *sim.Run) { ilv.RunC05(r) })
	register("ilv", "c01i", false, func(t *testing.T, r *sim.Run) { ilv.RunC01I(r) })
	register("ilv", "c10i", false, func(t *testing.T, r *sim.Run) { ilv.RunC10I(r) })
	register("ilv", "c03i", false, func(t *testing.T, r *sim.Run) { ilv.RunC03I(r) })
	register("ilv", "c14", false, func(t *testing.T, r *sim.Run) { ilv.RunC14(r) })
}
