// Package meta is the registry shared by the coordinator (kgcheck) and the
// worker: which batches a check runs, how many runs per tier, what is
// instrumented. It imports nothing from kubegateway.
package meta

import "kgsim/instr"

// Batch is a set of runs of one world/profile.
type Batch struct {
	World   string
	Profile string
	Quick   int // runs in the quick tier
	Thor    int // runs in the thorough tier
	PerProc int // runs per worker process (bubble worlds: 1)
	// FaultFree marks the configuration without injected faults.
	FaultFree bool
}

type Check struct {
	ID       string
	Title    string
	Batches  []Batch
	Rule     string   // how cases are generated and what makes one non-trivial/distinct
	Real     []string // components running shipped code
	Stub     []string // components that are stubs / simulator-owned
	Assume   []string
	NeedInst []string // instrumented files this check cannot run without
}

// InstrTargets lists the files of /repo that get yield points (DESIGN §2.5).
var InstrTargets = []instr.Target{
	{File: "pkg/ratelimiter/store/flowcontrol/maxinflight.go", All: true, Funcs: []string{"globalMaxInflight.SetState", "globalMaxInflight.add", "globalMaxInflight.Resize"}},
	{File: "pkg/flowcontrols/flowcontrol/flowcontrol.go", All: true, Funcs: []string{"flowControl.Resize"}},
	{File: "pkg/flowcontrols/remote/flowcontrol_wrapper.go", All: true, Funcs: []string{"localWrapper.Sync", "meterWrapper.TryAcquire", "meterWrapper.Release"}},
	{File: "pkg/flowcontrols/limiter.go", All: true, Funcs: []string{"upstreamLimiter.Load", "upstreamLimiter.syncLocalFlowControls"}},
	{File: "pkg/clusters/clusterinfo.go", Funcs: []string{"endpointPickStrategy.Pop"}},
	{File: "pkg/ratelimiter/limiter/ratelimter.go", Funcs: []string{"rateLimiter.UpdateRateLimitConditionStatus", "rateLimiter.UpstreamConditionHandler", "rateLimiter.calculateUpstreamCondition", "rateLimiter.deleteCondition"}},
	{File: "pkg/ratelimiter/store/k8s/cache_store.go", All: true, Funcs: []string{"objectStore.Save", "objectStore.Delete", "objectStore.DeleteUpstream", "objectStore.Load", "objectStore.Stop", "objectStore.createOrUpdate", "objectStore.doSyncLocked"}},
}

// GolibTarget is the dependency file instrumented in a scratch copy of its module.
var GolibTarget = instr.Target{File: "lock/maxinflight/max_inflight.go", Funcs: []string{"atomicTokenBucket.TryAcquire", "atomicTokenBucket.Release", "atomicTokenBucket.Resize"}}

const GolibModule = "github.com/zoumo/golib"

var Checks = map[string]*Check{}

func reg(c *Check) { Checks[c.ID] = c }

func init() {
	reg(&Check{
		ID:    "C08",
		Title: "Global count: server never grants beyond the global limit; accounting is exact",
		Batches: []Batch{
			{World: "ilv", Profile: "c08-noresize", Quick: 3000, Thor: 120000, PerProc: 250, FaultFree: true},
			{World: "ilv", Profile: "c08-resize", Quick: 1500, Thor: 60000, PerProc: 250},
		},
		Rule: "each run = one drawn workload (2-4 instance threads issuing SetState with drawn counts/request ids, removal threads, optional Resize thread) under one drawn statement-level schedule (uniform or PCT); distinct = distinct trace hash; non-trivial = at least two operations overlapped in time AND (a rollback, a removal or a stale id occurred)",
		Real: []string{"pkg/ratelimiter/store/flowcontrol (globalMaxInflight: SetState/add/Resize/DebugInfo, yield-instrumented copy of the current tree)"},
		Stub: []string{"instance threads (drawn reports), the cooperative scheduler"},
		Assume: []string{
			"goroutines are interleaved at statement granularity of the instrumented functions (sequentially consistent atomics); finer hardware reorderings are not explored",
			"a clean batch is evidence, not proof",
		},
		NeedInst: []string{"pkg/ratelimiter/store/flowcontrol/maxinflight.go"},
	})
}
