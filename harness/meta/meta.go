// Package meta is the registry shared by the coordinator (kgcheck) and the
// worker: which batches a check runs, how many runs per tier, what is
// instrumented. It imports nothing from kubegateway.
package meta

import "kgsim/instr"

// Batch is a set of runs of one world/profile.
type Batch struct {
	World   string
	Profile string
	Quick   int // runs in the quick tier
	Thor    int // runs in the thorough tier
	PerProc int // runs per worker process (bubble worlds: 1)
	// FaultFree marks the configuration without injected faults.
	FaultFree bool
}

type Check struct {
	ID       string
	Title    string
	Batches  []Batch
	Rule     string   // how cases are generated and what makes one non-trivial/distinct
	Real     []string // components running shipped code
	Stub     []string // components that are stubs / simulator-owned
	Assume   []string
	NeedInst []string // instrumented files this check cannot run without
}

// OverlayAdd lists files that exist only in the worker build (overlay entries
// for paths that are not in /repo): exported constructors for values that an
// oracle-side driver must be able to build but whose fields are unexported.
// They add no behaviour and nothing in kubegateway refers to them.
var OverlayAdd = map[string]string{
	"pkg/flowcontrols/remote/zz_kgsim_export.go": `package remote

import proxyv1alpha1 "github.com/kubewharf/kubegateway/pkg/apis/proxy/v1alpha1"

// KgsimAcquireResult builds the value the global counter hands to SetLimit
// after an acquire RPC (kgsim worker build only).
func KgsimAcquireResult(errText string, accept bool, limit int32, requestTime int64) *AcquireResult {
	return &AcquireResult{
		request:     &proxyv1alpha1.RateLimitAcquireRequest{},
		result:      &proxyv1alpha1.RateLimitAcquireResult{Accept: accept, Limit: limit, Error: errText},
		requestTime: requestTime,
	}
}
`,
	"pkg/ratelimiter/limiter/zz_kgsim_export.go": `package limiter

import (
	"sort"

	"k8s.io/apimachinery/pkg/labels"

	"github.com/kubewharf/kubegateway/pkg/ratelimiter/limiter/elector"
)

// KgsimLeaderCheck runs one round of the periodic leader check (kgsim worker build only).
func KgsimLeaderCheck(r RateLimiter) { r.(*rateLimiter).leaderCheck() }

// KgsimElector returns the limiter's leader elector.
func KgsimElector(r RateLimiter) elector.LeaderElector { return r.(*rateLimiter).leaderElector }

// KgsimReclaimInstance does for one instance what the goroutine started by
// cleanupTimeoutClient does once the instance's heartbeats have timed out (same
// statements, callable as a sim thread).
func KgsimReclaimInstance(r RateLimiter, instance string) {
	rl := r.(*rateLimiter)
	rl.clientCache.Delete(instance)
	reason := "instance " + instance + " heartbeat time-out (kgsim)"
	for _, limitStore := range rl.limitStoreMap {
		conditions := limitStore.List(labels.SelectorFromValidatedSet(labels.Set{RateLimitConditionInstanceLabel: instance}))
		for _, condition := range conditions {
			rl.deleteCondition(limitStore, condition, reason)
		}
		rl.deleteGlobalFlowControl(limitStore, instance, reason)
	}
}

// KgsimHasStore reports whether the limiter holds a store for the shard, without
// taking the lock (for a sim thread: another sim thread may be parked holding it).
func KgsimHasStore(r RateLimiter, shard int) bool {
	_, ok := r.(*rateLimiter).limitStoreMap[shard]
	return ok
}

// KgsimStoreShards lists the shards the limiter holds an in-memory store for.
func KgsimStoreShards(r RateLimiter) []int {
	rl := r.(*rateLimiter)
	rl.limitStoreLock.RLock()
	defer rl.limitStoreLock.RUnlock()
	var out []int
	for s := range rl.limitStoreMap {
		out = append(out, s)
	}
	sort.Ints(out)
	return out
}
`,
	"pkg/gateway/controllers/zz_kgsim_export.go": `package controllers

import proxyv1alpha1 "github.com/kubewharf/kubegateway/pkg/apis/proxy/v1alpha1"

// KgsimSync handles one queue item the way the controller's worker does (kgsim worker build only).
func KgsimSync(m *UpstreamClusterController, obj *proxyv1alpha1.UpstreamCluster) error {
	_, err := m.syncUpstreamCluster(obj)
	return err
}
`,
	"pkg/ratelimiter/limiter/elector/zz_kgsim_export.go": `package elector

// The three events client-go's leader election delivers for a shard, as the
// elector handles them (kgsim worker build only).
func KgsimStartLeading(e LeaderElector, shard int) { e.(*leaderElector).startLeading(shard) }
func KgsimStopLeading(e LeaderElector, shard int)  { e.(*leaderElector).stopLeading(shard) }
func KgsimNewLeader(e LeaderElector, shard int, identity string) {
	e.(*leaderElector).setLeader(shard, identity)
}
`,
}

// InstrTargets lists the files of /repo that get yield points (DESIGN §2.5).
var InstrTargets = []instr.Target{
	{File: "pkg/ratelimiter/store/flowcontrol/maxinflight.go", All: true, Funcs: []string{"globalMaxInflight.SetState", "globalMaxInflight.add", "globalMaxInflight.Resize"}},
	{File: "pkg/flowcontrols/flowcontrol/flowcontrol.go", All: true, Funcs: []string{"flowControl.Resize"}},
	{File: "pkg/flowcontrols/remote/flowcontrol_wrapper.go", All: true, Funcs: []string{"localWrapper.Sync", "meterWrapper.TryAcquire", "meterWrapper.Release"}},
	{File: "pkg/flowcontrols/remote/global_flowcontrol.go", Funcs: []string{"maxInflightWrapper.SetLimit", "maxInflightWrapper.Resize", "maxInflightWrapper.resize", "maxInflightWrapper.TryAcquire", "maxInflightWrapper.Release", "tokenBucketWrapper.SetLimit", "tokenBucketWrapper.Resize", "tokenBucketWrapper.TryAcquire"}},
	{File: "pkg/flowcontrols/limiter.go", All: true, Funcs: []string{"upstreamLimiter.Load", "upstreamLimiter.syncLocalFlowControls"}},
	{File: "pkg/clusters/clusterinfo.go", All: true, Funcs: []string{"endpointPickStrategy.Pop", "ClusterInfo.MatchAttributes", "ClusterInfo.Sync", "ClusterInfo.syncEndpoints", "ClusterInfo.addOrUpdateEndpoint"}},
	{File: "pkg/gateway/authentication/token/webhook/tokenreview.go", All: true},
	{File: "pkg/gateway/authorization/webhook/subjectaccessreview.go", All: true},
	{File: "pkg/gateway/controllers/upstream_controller.go", All: true, Funcs: []string{"UpstreamClusterController.syncUpstreamCluster", "UpstreamClusterController.AddOrUpdateForServerNames", "UpstreamClusterController.checkServerNameConflict", "UpstreamClusterController.checkUpstreamServerNameConflict", "UpstreamClusterController.DeleteForServerNames"}},
	{File: "pkg/ratelimiter/limiter/ratelimter.go", Funcs: []string{"rateLimiter.UpdateRateLimitConditionStatus", "rateLimiter.UpstreamConditionHandler", "rateLimiter.calculateUpstreamCondition", "rateLimiter.deleteCondition",
		"rateLimiter.leaderCheck", "rateLimiter.startLeading", "rateLimiter.stopLeading", "rateLimiter.getLimitStoreForShard", "rateLimiter.GetRateLimitCondition", "rateLimiter.DoAcquire", "rateLimiter.syncUpstreamClustersForShard"}},
	{File: "pkg/ratelimiter/limiter/elector/leader_elector.go", All: true, Funcs: []string{"leaderElector.startLeading", "leaderElector.stopLeading", "leaderElector.setLeader", "leaderElector.GetLeaders", "leaderElector.IsLeader"}},
	// the process id is part of every gateway instance's name; names are hashed
	// (sync.Map of known clients on the server), so a different pid would mean
	// another iteration order there. In the worker every process is pid 4242.
	{File: "pkg/ratelimiter/clientsets/clientsets.go", NoYield: true, Patches: []instr.Patch{
		{Name: "fixed-pid", Count: 1, Old: "os.Getpid()", New: "(os.Getpid()*0 + 4242)"},
	}},
	// runtime select among two ready cases is a coin the tape cannot own: the
	// prober's loops check the cancelled context first (a legal refinement of
	// the select; the oracle accepts the other outcome too)
	{File: "pkg/clusters/endpoint.go", NoYield: true, Patches: []instr.Patch{
		{Name: "ticker-ctx-first", Count: 1, Old: "\t\tfor {\n\t\t\tselect {\n\t\t\tcase <-tick.C:", New: "\t\tfor {\n\t\t\tif ctx.Err() != nil {\n\t\t\t\treturn\n\t\t\t}\n\t\t\tselect {\n\t\t\tcase <-tick.C:"},
		{Name: "checker-ctx-first", Count: 1, Old: "\t\tfor {\n\t\t\tselect {\n\t\t\tcase <-e.healthCheckCh:", New: "\t\tfor {\n\t\t\tif ctx.Err() != nil {\n\t\t\t\treturn\n\t\t\t}\n\t\t\tselect {\n\t\t\tcase <-e.healthCheckCh:"},
	}},
	// map iteration order reaches behaviour (order of API calls): any order is
	// legal for a map; the simulator fixes the canonical one.
	{File: "pkg/ratelimiter/store/local/local.go", NoYield: true, Patches: []instr.Patch{
		{Name: "sorted-list", Count: 2, Old: "\treturn results\n}", New: "\tsort.Slice(results, func(i, j int) bool { return results[i].Name < results[j].Name })\n\treturn results\n}"},
		{Name: "import-sort", Count: 1, Old: "import (\n", New: "import (\n\t\"sort\"\n"},
	}},
	// The shipped filters start metric recorders that never exit; the gw world fires
	// them before it enters its bubble (PreBubble), so they tick on the REAL clock
	// (every 10 s). A goroutine woken by a real timer takes the processor's next slot
	// and moves the scheduler's fairness tick: on a loaded machine, where a run can
	// last that long, the same seed then ran differently. In the worker they tick
	// once per 100000 h. (They feed metrics only.)
	{File: "pkg/gateway/endpoints/filters/requestrate.go", NoYield: true, Patches: []instr.Patch{
		{Name: "no-real-tick", Count: 1, Old: "rateMetricRecordPeriod = time.Second * 10", New: "rateMetricRecordPeriod = time.Hour * 100000"},
	}},
	{File: "pkg/gateway/endpoints/filters/readerwriter.go", NoYield: true, Patches: []instr.Patch{
		{Name: "no-real-tick", Count: 1, Old: "throughputMetricRecordPeriod = time.Second * 10", New: "throughputMetricRecordPeriod = time.Hour * 100000"},
	}},
	{File: "pkg/gateway/endpoints/monitor/rate.go", NoYield: true, Patches: []instr.Patch{
		{Name: "no-real-tick", Count: 1, Old: "rateMeterTickDuration = time.Second * 10", New: "rateMeterTickDuration = time.Hour * 100000"},
	}},
	{File: "pkg/gateway/endpoints/monitor/throughput.go", NoYield: true, Patches: []instr.Patch{
		{Name: "no-real-tick", Count: 1, Old: "throughputTickDuration   = time.Second * 10", New: "throughputTickDuration   = time.Hour * 100000"},
	}},
	{File: "pkg/ratelimiter/store/k8s/cache_store.go", All: true, Funcs: []string{"objectStore.Save", "objectStore.Delete", "objectStore.DeleteUpstream", "objectStore.Load", "objectStore.Stop", "objectStore.createOrUpdate", "objectStore.doSyncLocked"}},
}

// GolibTarget is the dependency file instrumented in a scratch copy of its module.
var GolibTarget = instr.Target{File: "lock/maxinflight/max_inflight.go", Funcs: []string{"atomicTokenBucket.TryAcquire", "atomicTokenBucket.Release", "atomicTokenBucket.Resize"}}

const GolibModule = "github.com/zoumo/golib"

// ModulePatches: literal replacements in files of dependency modules (overlay
// entries for files of the module cache), each must match exactly once.
// klog starts a flush daemon at init that ticks every 5 s of REAL time for the
// life of the process: see the note on the metric recorders above.
var ModulePatches = map[string]map[string][][2]string{
	"k8s.io/klog": {"klog.go": {{"const flushInterval = 5 * time.Second", "const flushInterval = 100000 * time.Hour // kgsim: see harness/meta"}}},
}

var gwReal = []string{"shipped proxy handler chain (hook H2: buildProxyHandlerChainFunc: request info, upstream info, authentication, impersonation, dispatcher ...)", "multi-cluster TokenReview authenticator and SubjectAccessReview authorizer with their caches", "UpstreamClusterController with shared informer and syncqueue", "clusters.Manager / ClusterInfo / EndpointInfo incl. GatewayHealthCheck probing", "per-endpoint client-go transports (bearer, impersonation, CancelableTransport, http.Transport) over in-bubble pipes (hook H1)", "dispatcher, UpgradeAwareHandler (non-upgrade path), vendored reverse proxy, local flow control", "upstreamcluster admission plugin (Admit + Validate) in front of the store"}

var gwStub = []string{"clients (raw HTTP/1.1 bytes over pipes)", "upstream kube-apiservers (scripted http.Server per endpoint: /healthz, TokenReview, SubjectAccessReview, proxied requests held at sim points)", "control-plane object store (generated fake clientset / tracker)", "network (net.Pipe with TCP-style addresses), fake clock (testing/synctest)"}

var gwAssume = []string{"plain HTTP/1.1 on both sides (no TLS handshakes, HTTP/2 or upgrades)", "between two driver steps goroutines run under a single-P Go runtime; the seed decides every stimulus (request, release, spec write, health change, clock advance), not statement interleavings", "a clean batch is evidence, not proof"}

var rlReal = []string{"1-3 limiter replicas: limiter.NewRateLimiter with the real elector over client-go leader election (leases), real UpstreamController informer and syncqueue, clientcache, allocation (calculateNextQuota), stores local / k8s", "the shipped limiter handler chain (endpoints.BuildHandlerChain: request info, panic recovery, LimiterDispatcher with go-restful routing and JSON decoding) served in-process on delivery", "gateway side: real pkg/ratelimiter/clientsets (server-info sync, heartbeats, readiness, shard routing) per instance"}

var rlStub = []string{"instances' reporting logic (synthetic honest reporters calling the server API through the real client sets) / request threads", "control-plane API: leases on a kube fake with resource-version conflicts and per-node reachability, UpstreamCluster objects on the generated fake clientset, RateLimitConditions on simapi", "network (simnet round tripper: drops, partitions, node death), fake clock"}

var rlAssume = []string{"one clock for all nodes (no skew); slow or cut-off nodes instead", "between two driver steps goroutines run under a single-P Go runtime; the seed decides every stimulus", "a clean batch is evidence, not proof"}

var Checks = map[string]*Check{}

func reg(c *Check) { Checks[c.ID] = c }

func init() {
	reg(&Check{
		ID:    "C08",
		Title: "Global count: server never grants beyond the global limit; accounting is exact",
		Batches: []Batch{
			{World: "ilv", Profile: "c08-noresize", Quick: 3000, Thor: 120000, PerProc: 250, FaultFree: true},
			{World: "ilv", Profile: "c08-resize", Quick: 1500, Thor: 60000, PerProc: 250},
			{World: "rl", Profile: "c08tb-acquire", Quick: 600, Thor: 12000, PerProc: 1, FaultFree: true},
		},
		Rule: "each run = one drawn workload (2-4 instance threads issuing SetState with drawn counts/request ids, removal threads, optional Resize thread) under one drawn statement-level schedule (uniform or PCT); distinct = distinct trace hash; non-trivial = at least two operations overlapped in time AND (a rollback, a removal or a stale id occurred). Profile c08tb-acquire (rl world): one real leading replica, a count-strategy token-bucket schema (qps 1..1000, burst 1-3x qps), 1-4 instances sending 20-120 Acquire RPCs with drawn asks (0, 1, around qps and burst, 8*burst+3, negative, int32 extremes; 1-3 requests per RPC) at drawn fake times (same instant, 1 ms, exactly 1/qps, ... 1 minute), limit changes through the real upstream controller; every answer is checked (0 <= grant <= ask, negative refused) and every window of grants within an epoch of unchanged limits against burst + qps*T; non-trivial = at least 5 grants and one served by a halved retry In c08tb-acquire the schema named tb starts as (one run in three), or becomes for a while, a max-in-flight schema and then a token bucket again under the same name; grants are bounded per epoch by the bucket declared last",
		Real: []string{"pkg/ratelimiter/store/flowcontrol (globalMaxInflight: SetState/add/Resize/DebugInfo, yield-instrumented copy of the current tree)", "c08tb-acquire: pkg/ratelimiter/limiter (DoAcquire, leader election, upstream controller), the server's handler chain, store/flowcontrol token bucket (x/time/rate on the fake clock)"},
		Stub: []string{"instance threads (drawn reports), the cooperative scheduler"},
		Assume: []string{
			"goroutines are interleaved at statement granularity of the instrumented functions (sequentially consistent atomics); finer hardware reorderings are not explored",
			"a clean batch is evidence, not proof",
		},
		NeedInst: []string{"pkg/ratelimiter/store/flowcontrol/maxinflight.go"},
	})
	reg(&Check{
		ID:    "C05",
		Title: "Local max-in-flight: never more than M admitted and unfinished; slots never leak",
		Batches: []Batch{
			{World: "ilv", Profile: "c05-static", Quick: 1500, Thor: 60000, PerProc: 250, FaultFree: true},
			{World: "ilv", Profile: "c05-reconf", Quick: 40000, Thor: 2000000, PerProc: 2500},
			{World: "gw", Profile: "c05h-exits", Quick: 120, Thor: 6000, PerProc: 1},
		},
		Rule: "each run = drawn workload (2-4 request threads doing GetOrDefault/TryAcquire/Release exactly like the dispatcher, one configuration thread issuing Sync with resizes, type changes, delete/re-add; bystander schema and cluster) under one drawn statement-level schedule; distinct = distinct trace hash; non-trivial = operations overlapped AND at least one request was refused (the bound was reached). Profile c05h-exits (gw world): real HTTP requests under a max-in-flight policy ending as upstream success, upstream 5xx, reset, truncated body (reverse-proxy abort path), no ready endpoint, client abort while the stub holds the response, interleaved with resizes and bystander schema/cluster traffic; after draining exactly M concurrent probes must be forwarded and the M+1-th get 429. The schema starts as a max-in-flight schema or (reconf profile, one run in three) as a token-bucket, exempt or absent one that becomes max-in-flight later; an acquire that panics inside the limiter (answered 500 by the panic filter) is a separate outcome that neither admits nor refuses. Request threads (2-5, 1-4 requests each) idle for 0-3 steps before a request and 0-3 while it is served; the configuration thread issues 1-6 reconfigurations with idle steps in between, mostly re-creating the schema as max-in-flight when it is something else, runs at a drawn multiple (1/4/16/48) of the requests' pace and, one run in two, is left alone once for 20-140 steps at a drawn statement",
		Real: []string{"pkg/flowcontrols (UpstreamLimiter, syncLocalFlowControls), pkg/flowcontrols/remote (FlowControlCache, localWrapper, meterWrapper), pkg/flowcontrols/flowcontrol, github.com/zoumo/golib/lock/maxinflight atomicTokenBucket — all yield-instrumented copies of the current tree", "pkg/flowcontrols/util Meter (background statistics goroutines, uninstrumented, real time)"},
		Stub: []string{"request/configuration threads, the cooperative scheduler"},
		Assume: []string{
			"interleaving at statement granularity of the instrumented functions; sequentially consistent atomics",
			"the gw world (HTTP exit paths: upstream error, no ready endpoint, client abort, panic) complements this check once built",
			"a clean batch is evidence, not proof",
		},
		NeedInst: []string{"pkg/flowcontrols/flowcontrol/flowcontrol.go", "pkg/flowcontrols/remote/flowcontrol_wrapper.go", "pkg/flowcontrols/limiter.go", GolibModule + "/" + GolibTarget.File},
	})
	reg(&Check{
		ID:    "C14",
		Title: "Round-robin: ready endpoints of a policy share its traffic evenly",
		Batches: []Batch{
			{World: "ilv", Profile: "c14-rr", Quick: 3000, Thor: 100000, PerProc: 250, FaultFree: true},
			{World: "gw", Profile: "c14h-http", Quick: 100, Thor: 5000, PerProc: 1, FaultFree: true},
		},
		Rule: "each run = drawn cluster (1-5 endpoints, explicit subset in drawn order or all endpoints with tape-permuted map order), 1-3 concurrent picker threads of the measured policy, 0-2 other pickers over the same endpoints (second policy, PickOne as used by authentication), 1-3 stretches with a readiness change in between, under a drawn statement-level schedule of Pop(); distinct = distinct trace hash; non-trivial = at least 4 measured picks over at least 2 endpoints. In one run in two a resync thread re-applies the cluster with an unchanged server list (identical object, another logging mode, another label) 1-3 times per stretch while the picks go on: the ready set does not change, so the windows span the re-applications. Profile c14h-http (gw world): sequential proxied requests, most of them token-authenticated (authentication picks an endpoint for every request), every window checked One request thread in three is left alone once for 20-220 steps at a drawn statement. For policies over all endpoints a server is sometimes added between two stretches (also right after start-up): a thread applies the larger object while 2-8 unmeasured picks go on, the new endpoint then becomes ready and the next stretch (20-60 picks) is measured over the larger set",
		Real: []string{"pkg/clusters ClusterInfo (CreateClusterInfo, Sync, MatchAttributes, PickOne, endpointPickStrategy.Pop yield-instrumented), EndpointInfo status"},
		Stub: []string{"picker threads; endpoint health set directly through EndpointInfo.UpdateStatus (no probes in this world)"},
		Assume: []string{
			"consecutive picks under concurrency are delimited by quiescent points (all pickers between operations); with one picker every window is checked",
			"all-endpoints policy: allowed deviation k! (one cursor per distinct map ordering), k <= 3",
			"a clean batch is evidence, not proof",
		},
		NeedInst: []string{"pkg/clusters/clusterinfo.go"},
	})
	reg(&Check{
		ID:    "C06",
		Title: "Local token bucket: admissions <= burst + qps*T, never stricter than set",
		Batches: []Batch{
			{World: "tb", Profile: "c06-steady", Quick: 600, Thor: 40000, PerProc: 50, FaultFree: true},
			{World: "tb", Profile: "c06-reconf", Quick: 400, Thor: 20000, PerProc: 50},
			{World: "gw", Profile: "c06h-http", Quick: 100, Thor: 5000, PerProc: 1, FaultFree: true},
			{World: "tb", Profile: "c06i-sameinstant", Quick: 1500, Thor: 60000, PerProc: 1},
		},
		Rule: "each run = drawn (qps, burst>=qps) and a drawn arrival process of 20-400 calls on the fake clock (same-instant bursts, exact k/qps gaps +-1ns, micro/milli/second pauses up to 2 minutes; reconf profile: resizes ending a stretch); every pair of admissions of a stretch is checked against burst+qps*T, every idle period against min(burst, floor(qps*t)); distinct = distinct trace hash; non-trivial = some calls admitted and some refused. Profile c06h-http (gw world): the same bounds observed through HTTP, refused <=> 429 Status and never forwarded. Profile c06i-sameinstant (bubble + cooperative scheduler): 2-6 request threads hit a freshly created token-bucket schema 1-3 times each at one fake instant, optionally with a concurrent reconfiguration, interleaved at statement granularity through GetOrDefault / TryAcquire / Sync; at most the sum of the bursts of the buckets that existed may be admitted The schema carries a drawn limit strategy (none, local, or globalAllocate / globalCount with a global bucket of three times the local one); the limiter runs in local mode, where the local bucket is the one that counts",
		Real: []string{"pkg/flowcontrols UpstreamLimiter + remote.FlowControlCache/localWrapper/meterWrapper + flowcontrol.resizeableTokenBucket + client-go token bucket (golang.org/x/time/rate) reading the bubble clock"},
		Stub: []string{"arrival process (driver), fake clock (testing/synctest)"},
		Assume: []string{
			"epsilon of 1e-6 token for float rounding of the underlying limiter",
			"callers arrive at the same fake instant rather than on parallel OS threads (the limiter serialises them under its own mutex)",
			"the 429 mapping is checked through HTTP in the gw world (C04/C05 profiles)",
			"a clean batch is evidence, not proof",
		},
	})
	reg(&Check{
		ID:    "C19",
		Title: "API-backed limiter store: acknowledged state survives crashes, per shard",
		Batches: []Batch{
			{World: "store", Profile: "c19-nofault", Quick: 150, Thor: 6000, PerProc: 1, FaultFree: true},
			{World: "store", Profile: "c19-faults", Quick: 350, Thor: 20000, PerProc: 1},
			{World: "rl", Profile: "c19h-handover", Quick: 120, Thor: 6000, PerProc: 1},
		},
		Rule: "each run = drawn shard layout, store mode (write-through / periodic with drawn period), 1-3 caller threads with drawn Save/Delete/DeleteUpstream/Flush programs over conditions of both shards, injected API outcomes at the pre/post sim point of every API call, and either a crash at a drawn step or a graceful Stop; afterwards successors of both shards Load() fault-free; distinct = distinct trace hash; non-trivial = some operation acknowledged AND (an operation failed, was in flight at the crash, or a graceful stop completed). Profile c19h-handover (rl world): two real limiter replicas with lease election over 1-3 shards and the API-backed store (write-through or 1 s periodic), 2-5 upstreams, 1-3 gateway client sets whose reports go to the leaders they discover; 15-60 steps of reports, clock advances, crash of a replica, loss/return of a replica's lease API (graceful stop of the shard), restart; write-through: every answered report is compared with the API at once; once per leadership term (1.5 s after it began, skipped if the replica's 30 s unknown-condition sweep fell into it) every persisted condition of the shard must be on the new leader's record, with the persisted quota in write-through mode; non-trivial = 3+ answered reports, a leader change and a hand-over check One save in four of a name of the store's own shard repeats the value last saved for that name (a report that changes nothing)",
		Real: []string{"pkg/ratelimiter/store/k8s objectStore (Save/Delete/DeleteUpstream/Load/Flush/Stop/createOrUpdate/periodic sync; optionally yield-instrumented), pkg/ratelimiter/store/local, client-go retry/back-off on the fake clock"},
		Stub: []string{"control-plane API for RateLimitConditions (simapi: in-memory objects with resource versions, REST-strategy status/spec separation, two sim points per call)", "caller threads"},
		Assume: []string{
			"durable state = objects in the simulated API; a crash abandons the holder with all goroutines parked for ever",
			"a panic inside the store's own goroutines is executed as a crash of the holder (as in production, ReallyCrash=true), then the durability oracle runs on the survivors",
			"specs are compared (a main-resource update does not persist status, as the REST strategy prescribes)",
			"a clean batch is evidence, not proof",
		},
	})
	reg(&Check{
		ID:    "C03",
		Title: "Endpoint selection: only enabled, healthy endpoints of the policy get traffic",
		Batches: []Batch{
			{World: "gw", Profile: "c03-nofault", Quick: 60, Thor: 3000, PerProc: 1, FaultFree: true},
			{World: "gw", Profile: "c03-faults", Quick: 140, Thor: 7000, PerProc: 1},
			{World: "gw", Profile: "c03p-preempt-faults", Quick: 150, Thor: 8000, PerProc: 1},
			{World: "ilv", Profile: "c03i-match", Quick: 6000, Thor: 300000, PerProc: 500, FaultFree: true},
		},
		Rule:     "each run = one cluster with 1-4 endpoints and two verb-distinguished policies with drawn subsets; 15-70 drawn steps of: client request (held at the stub or not), release of a held request (possibly reset/5xx/truncated), spec update (disable/enable, remove/add server, change a subset), health/connectivity change of a stub (500, hang, reset, refused), clock advance (0.2-11 s); distinct = distinct trace hash; non-trivial = at least one request forwarded AND at least one spec or health change. Profile c03p-preempt*: the same histories with preemption fuzzing (the gateway's own goroutines give up the processor at one in three statements of upstream_controller.go and clusterinfo.go; a PRNG of the run decides). In every spec update of these profiles 0-2 requests are sent at the same instant as the update (nothing settles in between); such a request may see each attribute of an endpoint in its old or its new value. Spec updates also reorder the two policies and put a third policy in front of them. Profile c03i-match (ilv world, cooperative scheduler over the yield-instrumented clusterinfo.go): 1-3 request threads doing MatchAttributes + Pop (2-8 picks each) against one thread applying 1-5 spec versions through ClusterInfo.Sync (servers disabled/enabled, policies rotated, a policy put in front or removed, subsets changed; all endpoints healthy) under a drawn statement-level schedule with a drawn pace and an optional stall of the applying thread; a pick must be explained by the spec versions in force at some moment of the call One run in three writes the cluster's first two versions back to back (the second one disables a server)",
		NeedInst: []string{"pkg/clusters/clusterinfo.go"},
		Real:     gwReal, Stub: gwStub, Assume: gwAssume,
	})
	reg(&Check{
		ID:    "C04",
		Title: "Forwarding fidelity: requests and responses cross the gateway unchanged",
		Batches: []Batch{
			{World: "gw", Profile: "c04-nofault", Quick: 120, Thor: 6000, PerProc: 1, FaultFree: true},
			{World: "gw", Profile: "c04-faults", Quick: 60, Thor: 3000, PerProc: 1},
		},
		Rule: "each run = 6-30 drawn client requests written as raw HTTP/1.1 bytes (method, path segments with escaped bytes, query pairs incl. empty/repeated/encoded/malformed, end-to-end and hop-by-hop headers, X-Forwarded-For chains, bodies 0 B-256 KiB with Content-Length or chunked) against drawn scripted upstream answers (status 200-503, header sets, bodies fixed or streamed in pieces), plus gateway-terminated cases provoked through state (unknown host, DenyAllRequests gate, cluster without reachable endpoint, exhausted limiter, refused impersonation); non-resource URLs of every depth (/apis, /api/v1, /apis/apps/v1, /openapi/v2, /custom/a/b/c/d, ...) next to resource paths; one upstream answer in four is slow (the upstream takes 0 / 0.2 / 2 / 6 / 31 / 61 s before it answers; the shipped chain has no request time-out); fault profile: upstream connection reset/truncated; distinct = distinct trace hash; non-trivial = at least one forwarded request compared end to end",
		Real: gwReal, Stub: gwStub, Assume: append([]string{"the path is compared decoded (the dispatcher rebuilds the URL from URL.Path: %2F arrives as /, recorded as an observation); query pairs url.ParseQuery rejects are outside 'query parameters'", "the HTTP layer may add User-Agent/Accept-Encoding upstream and Cache-Control/Date/Content-Length/Transfer-Encoding/Connection/sniffed Content-Type downstream"}, gwAssume...),
	})
	reg(&Check{
		ID:    "C02",
		Title: "Identity propagation: upstream acts as exactly the authenticated user",
		Batches: []Batch{
			{World: "gw", Profile: "c02-nofault", Quick: 150, Thor: 8000, PerProc: 1, FaultFree: true},
			{World: "gw", Profile: "c02-faults", Quick: 50, Thor: 3000, PerProc: 1},
		},
		Rule: "each run = 1-2 clusters with drawn token tables (names/groups/extra keys with odd bytes) and a drawn impersonation SAR policy (allow/deny/no-opinion per user, group, extra value, service account; fault profile: SAR backend errors), 8-28 raw requests with drawn combinations and casings of Authorization (valid, invalid, absent, duplicated), Impersonate-User (plain, service account, anonymous, empty), 0-3 Impersonate-Group, Impersonate-Extra-<escaped keys>, and other Impersonate-* members; the oracle compares what each stub upstream received with a reference computed from the property text; distinct = distinct trace hash; non-trivial = at least one request forwarded and one refused by the gateway Impersonated extras take their values from a pool of three, 1-3 extras per request: the same value can be allowed under one key and refused under another",
		Real: gwReal, Stub: gwStub, Assume: append([]string{"the authenticated identity includes system:authenticated as added by the gateway's authenticator chain; extra keys are compared lower-cased and unescaped (kube impersonation convention)", "websocket bearer sub-protocol and upgrade requests are not simulated"}, gwAssume...),
	})
	reg(&Check{
		ID:    "C01",
		Title: "Routing: first matching dispatch policy, with the documented rule semantics",
		Batches: []Batch{
			{World: "gw", Profile: "c01-routing", Quick: 200, Thor: 12000, PerProc: 1, FaultFree: true},
			{World: "ilv", Profile: "c01i-resync", Quick: 1500, Thor: 60000, PerProc: 250},
		},
		Rule:     "each run = one cluster with 1-4 policies x 1-3 rules drawn from small per-field alphabets ('*', x, -x, several -x, mixed -x,y, globs, */sub, res/sub, service accounts with empty parts), every policy bound to its own single endpoint so that the contacted stub names the chosen policy; 10-40 real HTTP requests (verb x group x resource/sub x name x non-resource path x user/groups through TokenReview) interleaved with up to 6 reloads (new or permuted list); the oracle is a reference matcher written from docs/en/design.md and the property text, evaluated on the stored (admitted) list; distinct = distinct trace hash; non-trivial = at least one request matched and one matched no policy. Profile c01i-resync (ilv world): 1-3 request threads call ClusterInfo.MatchAttributes while a controller thread replaces the policy list 1-4 times (2-4 versions; neighbours differ by a policy inserted at, removed from or moved to the front), interleaved at statement granularity; each request must be handled under the first match of a list that was current at some moment of its call, and nothing may panic; non-trivial = a call overlapped a Sync",
		NeedInst: []string{"pkg/clusters/clusterinfo.go"},
		Real:     gwReal, Stub: gwStub, Assume: append([]string{"the deciding power for the rule semantics comes from seeded generation of (policy list, request) pairs inside running gateways; what the simulation adds is history independence and 'never forwarded when unmatched' observed at the system boundary", "inverted non-resource URLs and inverted service accounts are documented as unsupported and are not generated"}, gwAssume...),
	})
	reg(&Check{
		ID:    "C15",
		Title: "Removal: deleted clusters/endpoints get no traffic; in-flight requests are cut",
		Batches: []Batch{
			{World: "gw", Profile: "c15-removal", Quick: 150, Thor: 8000, PerProc: 1, FaultFree: true},
			{World: "gw", Profile: "c15p-preempt", Quick: 200, Thor: 8000, PerProc: 1},
		},
		Rule: "each run = cluster alpha (endpoints e0,e1 behind verb-distinguished policies) and bystander cluster beta; 6-12 requests in drawn phases of their life (parked in TokenReview before the pick, held at the upstream before headers, mid-stream of a chunked long-running response with drawn progress), then one drawn removal (delete the cluster, remove e0, replace e0 by a new endpoint); afterwards: victims must end at the client within 2 simulated seconds without further stimulus, the removed endpoint's server must see the cancellation, new requests get 503 / never reach the removed endpoint, bystander streams receive their next chunk, probing of the removed endpoint stops and of the others continues; distinct = distinct trace hash; non-trivial = at least one request was in flight to what was removed. Before the requests are sent alpha goes through 0-2 earlier versions in which one of its endpoints is disabled and enabled again (so that endpoints about to be removed have been through the update path, not only the create path). At the end, one run in two, something exists for an instant: a third cluster is created (and possibly updated) and deleted again, or an endpoint of alpha is added and removed again, before anything settles (both events wait for the controller at once); 13 s later the cluster must answer 503 and none of those endpoints may have been probed after 6.5 s. Profile c15p-preempt*: the same histories with preemption fuzzing (the gateway's own goroutines give up the processor at one in three statements of upstream_controller.go and clusterinfo.go; a PRNG of the run decides) What the client of a stream that was cut by the removal has received must be a prefix of the upstream's body",
		Real: gwReal, Stub: gwStub, Assume: append([]string{"'promptly' is read as 2 simulated seconds; 'probing stops' as no probe later than one interval (5 s) plus 1.5 s after the removal"}, gwAssume...),
	})
	reg(&Check{
		ID:    "C12",
		Title: "Authentication and authorization decisions never cross clusters",
		Batches: []Batch{
			{World: "gw", Profile: "c12-hosts", Quick: 120, Thor: 6000, PerProc: 1},
			{World: "gw", Profile: "c12-alias", Quick: 80, Thor: 4000, PerProc: 1},
			{World: "gw", Profile: "c12p-preempt", Quick: 200, Thor: 8000, PerProc: 1},
		},
		Rule: "each run = 2-3 clusters whose stubs map the same tokens to different users and answer the same impersonation SAR differently, drawn cache TTLs (0 / 2 s / default), 15-55 steps of: request to a drawn host (names in mixed case, aliases) with a drawn token and optional impersonation, time gaps around the TTLs (0.5 s - 11 min), changes of a cluster's own answers (token remapped/revoked, SAR flipped), a cluster made unreachable and back, delete and re-create; profile c12-alias also moves a server name from one live cluster to another; the oracle attributes every forwarded identity and every review to the cluster the host resolves to; distinct = distinct trace hash; non-trivial = at least two forwarded requests with two or more clusters. One token names the same user in every cluster; in 'twin' steps that user sends the identical impersonation request to two clusters at the same time while the first cluster's SubjectAccessReview is held at a sim point. In 'churn' steps a cluster answers an impersonation question, is deleted, another cluster is created anew (deleted first if it lives) and is asked the same question as its first A step sends 2-3 requests with drawn tokens to different clusters at one instant. Profile c12p-preempt: the same histories with preemption fuzzing over tokenreview.go, subjectaccessreview.go, upstream_controller.go and clusterinfo.go",
		Real: gwReal, Stub: gwStub, Assume: append([]string{"a cached answer may be as old as the longest configured TTL plus 50 ms", "the alias-move profile goes beyond the literal quantifier (hosts are fixed there) but not beyond the statement"}, gwAssume...),
	})
	reg(&Check{
		ID:    "C11",
		Title: "Hot reload converges to the latest object's config, whatever the history",
		Batches: []Batch{
			{World: "gw", Profile: "c11-history", Quick: 200, Thor: 10000, PerProc: 1},
			{World: "gw", Profile: "c11p-preempt", Quick: 150, Thor: 8000, PerProc: 1},
		},
		Rule: "each run = 1-3 clusters, 6-40 steps of: a new object version mutating one hot-reloadable section (servers/disabled, policies incl. subsets, schema references and log modes, flow-control schemas incl. type/strategy/size, feature-gate annotation added/changed/gate removed/annotation removed/annotations nil, logging, serving certificate and client CA, server names from a colliding pool) through the real admission plugin, admission lister or controller informer held back and released (watch_delay: name conflicts reach the controller and are requeued), time advancing across the 5 s requeues, delete and re-create; at final quiescence a fresh twin gateway is built in the same bubble from the latest objects only and compared per cluster through public accessors and routing probes; distinct = distinct trace hash; non-trivial = at least 3 versions applied. One mutation in four takes one aspect back to the value it had before its last change (A -> B -> A histories per aspect). Profile c11p-preempt*: the same histories with preemption fuzzing (the gateway's own goroutines give up the processor at one in three statements of upstream_controller.go and clusterinfo.go; a PRNG of the run decides) One new version in three is followed at once by another version of the same cluster (nothing settles in between). A final state in which a cluster still holds a name its latest object gave up is known finding F-C10-1 of C10 and is not judged here",
		Real: gwReal, Stub: gwStub, Assume: append([]string{"client connection settings are excluded (fixed at creation, as the statement says)", "runs whose final objects claim one name twice are not compared (which cluster serves it is C10's business)"}, gwAssume...),
	})
	reg(&Check{
		ID:    "C10",
		Title: "Tenant resolution: a host resolves to at most one cluster, and the right one",
		Batches: []Batch{
			{World: "gw", Profile: "c10-names", Quick: 200, Thor: 10000, PerProc: 1},
			{World: "gw", Profile: "c10p-preempt", Quick: 200, Thor: 10000, PerProc: 1},
			{World: "ilv", Profile: "c10i-names", Quick: 6000, Thor: 300000, PerProc: 500, FaultFree: true},
		},
		Rule:     "each run = 2-4 clusters (one of them named like an alias of the pool), 8-45 steps of create/update with 0-3 server names drawn from a colliding mixed-case pool (incl. another cluster's name) and serving cert/client CA on or off, delete, re-create, admission lister or controller informer held back and released (conflicting claims reach the controller), clock advances, and stable points (no lag, 24 s later) with real requests whose Host header comes in drawn case with or without port; invariants at every boundary (a name resolves only to a claimant; an owner that claimed a name in every version never loses it), at stable points (deleted clusters stop resolving; with conflict-free latest objects resolution equals the claims; HTTP agrees with the manager) and TLS material per SNI at the end; distinct = distinct trace hash; non-trivial = at least 3 accepted writes. Profile c10p-preempt: the same histories while the controller's own goroutines give up the processor at one in three statements of upstream_controller.go / clusterinfo.go Sync (go/ast yields, a PRNG of the run decides), so that whatever else is runnable in the gateway runs inside a sync In one update in two of a live cluster 1-2 requests for the cluster's own name are sent at the instant of the update; where the name resolved to the cluster before and after, they must be served by it. Profile c10i-names (ilv world, cooperative scheduler over the yield-instrumented upstream_controller.go): 1-3 clusters with aliases from pools of their own, one thread applying 1-6 alias-changing versions through the real syncUpstreamCluster (informer cache filled by hand, drawn pace and stall), 1-3 threads looking names up in the controller's table (3-12 look-ups each) under a drawn statement-level schedule; a name claimed by every version of its cluster in force at the moment of the look-up must resolve to it, one claimed by none must not, and no name resolves to another cluster",
		NeedInst: []string{"pkg/gateway/controllers/upstream_controller.go"},
		Real:     gwReal, Stub: gwStub, Assume: append([]string{"TLS selection is checked by calling WrapGetConfigForClient / SNIVerifyOptions directly (no handshakes are simulated)", "when two live latest objects claim one name the iff clause is not evaluated (which of them serves it is not stated)"}, gwAssume...),
	})
	reg(&Check{
		ID:    "C16",
		Title: "Admission validation is total, and what it accepts the data plane can apply",
		Batches: []Batch{
			{World: "gw", Profile: "c16-objects", Quick: 200, Thor: 12000, PerProc: 1, FaultFree: true},
			{World: "rl", Profile: "c16l-nofault", Quick: 200, Thor: 6000, PerProc: 1, FaultFree: true},
			{World: "rl", Profile: "c16l-apifaults", Quick: 400, Thor: 10000, PerProc: 1},
		},
		Rule: "each run = 4-14 UpstreamCluster objects obtained from a valid template by 1-3 drawn mutations (endpoint strings with bad escapes/no scheme/mixed schemes/userinfo/spaces, client and serving key material empty/truncated/mismatched, every subset of the five flow-control members with nil/negative/MaxInt32 numbers and strategies, dangling subset/schema references, feature-gate strings, names), submitted as creates or as updates of an existing cluster through the real admission plugin; every admitted object is then applied by the real pipeline (store, informer, controller goroutine, ClusterInfo with its transports and probes) and by the limiter's store; distinct = distinct trace hash; non-trivial = at least one object admitted and one rejected. Profiles c16l-* (rl world): a real leading limiter replica (store API-backed write-through / periodic / in-memory) is handed 8-40 steps of new versions of 1-3 upstreams whose flow-control schemas are drawn from all member combinations and boundary values and filtered by the real validator (only accepted objects are stored), reports of an instance, clock advances and, in the fault profile, outages of the condition API (every call of the replica fails with a 500 while it lasts); after the faults stop and four retry periods of the handler the limiter's state of every upstream must equal what the latest valid object means and a report must be answered; a panic anywhere ends the run as a crash",
		Real: gwReal, Stub: gwStub, Assume: append([]string{"the deciding power is seeded object generation; the simulation adds that 'can be applied' is judged by the real pipeline including the controller's sync goroutine (panics there are recorded through apimachinery's panic handlers instead of killing the worker)", "the limiter server's UpstreamConditionHandler under leadership is exercised in the rl world; here its store-level consumers run"}, gwAssume...),
	})
	reg(&Check{
		ID:    "C09",
		Title: "Gateway never exceeds the global limit; falls back to local limit on failure",
		Batches: []Batch{
			{World: "rlstub", Profile: "c09-byzantine", Quick: 250, Thor: 15000, PerProc: 1},
			{World: "rl", Profile: "c09i-wrapper", Quick: 1500, Thor: 60000, PerProc: 1},
			{World: "rl", Profile: "c09t-tbwrapper", Quick: 800, Thor: 30000, PerProc: 1},
		},
		Rule:     "each run = one gateway instance's real limiter stack (clientsets with heartbeat/readiness hysteresis, UpstreamLimiter, reconcile loop, global counter manager, wrappers, meters) for one cluster with 1-2 schemas (max-in-flight or token bucket x allocate or count strategy, local <= global), 20-120 steps of request bursts with drawn hold times, clock advances (50 ms - 6 s), server readiness flaps, leader unknown, partitions, against a scripted server that answers allocate/acquire with arbitrary int32 quotas and bursts (0, negative, > configured, MaxInt32), accept/reject, error strings and failures; then faults stop, the server answers an honest quota and the bounded-liveness clause is checked; distinct = distinct trace hash; non-trivial = requests were admitted through the server-controlled limiter and also refused or admitted locally. Max-in-flight schemas are reconfigured during the run (new local/global limits; after a lowering the previous limit is tolerated until the second allocate answer has come back, i.e. until a reconcile round that began after the change has completed) and the server may turn stale (repeats its previous answer per schema). Profile c09i-wrapper (rl world, bubble + cooperative scheduler): the count-strategy max-in-flight wrapper of one schema with its three callers as sim threads interleaved at statement granularity - the global counter delivering 1-5 server answers (error, accept / refuse with limits from 0 to 2^30, stale id), the reconcile loop applying 1-3 changed limits (local config, then Sync -> Resize), 2-5 requests (TryAcquire, hold, Release; a request waiting for an answer is left to its 300 ms time-out); each admission is judged against the loosest global limit in force at some moment of its TryAcquire call, and after quiescence at most the current global limit can be taken. Profile c09t-tbwrapper: the same for the token-bucket wrapper (3-40 answers, mostly accepts; admissions stamped on the fake clock and bounded per window by qps*T + burst of the loosest limits in force at some moment of the window, one fresh burst per change inside it) A step switches the cluster's limiter type to local and back to remote (at one instant, or 100 ms apart). After the recovery phase count-strategy token buckets with global >= 2*local+4 are driven with 100 requests/s for 5 s: more must be admitted than the local fall-back allows",
		NeedInst: []string{"pkg/flowcontrols/remote/global_flowcontrol.go"},
		Real:     []string{"pkg/ratelimiter/clientsets (server-info sync, heartbeats, readiness hysteresis, client cache) over the simulated network", "pkg/flowcontrols UpstreamLimiter.Load/Sync/ResetLimiter", "pkg/flowcontrols/remote (reconcile loop, FlowControlCache, remote/local wrappers, global counter manager, maxInflight/tokenBucket wrappers, meters)", "client-go REST client encoding/decoding"},
		Stub:     []string{"the limiter server (byzantine script: the property quantifies over whatever the server answers)", "request threads (GetOrDefault/TryAcquire/hold/Release as the dispatcher does)", "network (simnet round tripper with partitions), fake clock"},
		Assume:   []string{"admissions are attributed to the limiter object that made them (remote vs local wrapper) through the public AllFlowControls() accessors", "token-bucket bound per limiter object allows one fresh burst per reconcile period (a new quota swaps in a new bucket)", "the server's coin is a pre-drawn sub-stream of the tape consumed in RPC arrival order", "a clean batch is evidence, not proof"},
	})
	reg(&Check{
		ID:    "C07",
		Title: "Global allocation: quotas never exceed the global limit and are never < 1",
		Batches: []Batch{
			{World: "rl", Profile: "c07-sequences", Quick: 200, Thor: 10000, PerProc: 1, FaultFree: true},
			{World: "rl", Profile: "c07o-overlap", Quick: 1500, Thor: 60000, PerProc: 1, FaultFree: true},
			{World: "rl", Profile: "c07h-handover", Quick: 200, Thor: 8000, PerProc: 1},
		},
		Rule:     "each run = 1-2 replicas with real lease election, 1-3 shards, 1-2 upstreams with a max-in-flight and optionally a token-bucket schema (global limits 1 ... 100000), 2-6+ honest instances (each echoes exactly the quota it was last answered, reports used >= 0 and RequestLevel = floor(100*used/current)), 20-80 steps of reports, limit changes through the real upstream controller (raise, lower below the allocated sum), clock advances, instances leaving and joining; after every answered report the quotas the leader has on record are read back through its exposed API; distinct = distinct trace hash; non-trivial = at least 5 answered reports from 2+ instances. Profile c07o-overlap: one leading replica (store local or API-backed), 2-4 instances, 3-12 rounds in each of which 1-3 honest reports run as sim threads through the yield-instrumented UpdateRateLimitConditionStatus under a drawn statement-level schedule; the over-commit clause is evaluated with the recorded sum at the start of the round. Profile c07h-handover: the c07-sequences workload and oracle with two replicas and the API-backed store (write-through, or periodic 1 s), plus crashes, lease-API cuts (graceful loss of leadership) and restarts; reports are answered by whoever leads; a report is judged against the records of the single leader that answered it, read before and after; non-trivial also needs a report answered after a leader change In c07o-overlap one round in two also reclaims an instance that does not report in that round (a sim thread running the statements of the sweep's goroutine, three times in four left alone once for 20-120 steps at a drawn statement), and one run in two starts with the pool handed out (hungry reports until nobody grows)",
		NeedInst: []string{"pkg/ratelimiter/limiter/ratelimter.go"},
		Real:     rlReal, Stub: rlStub, Assume: append([]string{"'honest' = echoes the last answered quota, used >= 0, RequestLevel = floor(100*used/current); an instance whose record was reclaimed still echoes its last quota"}, rlAssume...),
	})
	reg(&Check{
		ID:    "C13",
		Title: "Sharding: one shard per upstream on both sides; only its leader serves it",
		Batches: []Batch{
			{World: "rl", Profile: "c13-nofault", Quick: 60, Thor: 3000, PerProc: 1, FaultFree: true},
			{World: "rl", Profile: "c13-faults", Quick: 140, Thor: 7000, PerProc: 1},
			{World: "rl", Profile: "c13i-leadercheck", Quick: 300, Thor: 15000, PerProc: 1, FaultFree: true},
		},
		Rule:     "each run = N in {1,2,3,5} shards, 2-3 replicas with real lease election (3 s leases), store local or API-backed, 2-4 upstreams, two gateway client sets; shard function observed for odd byte strings on both sides; 20-90 steps of allocate/acquire RPCs sent to a drawn replica (leader or not), clock advances, and faults: a replica cut off from the API server (leases expire), crash, restart, gateway-replica partitions; leadership is taken in each replica's own view at the boundaries around every call; distinct = distinct trace hash; non-trivial = at least one RPC served and one refused. Profile c13i-leadercheck (one replica whose real election loops never get a lease; bubble + cooperative scheduler over ratelimter.go and leader_elector.go): 4-14 rounds in each of which, per shard, at most one election event (started leading + new-leader report in either order, stopped leading, another leader observed) is delivered through the real elector methods and their callbacks, the periodic leader check runs, and 0-2 allocate/acquire calls arrive, all as sim threads under a drawn statement-level schedule; after a round (one in two, and the last) two undisturbed leader checks run and the in-memory stores must be exactly the led shards; a call whose shard was led at no moment of the call must be refused With the API-backed store, one gain in three is a gain whose started-leading callback is held inside the List call of the store's Load while the stop event (and, one time in two, the new holder's identity) is delivered: the lease was lost while the shard was being loaded. A run of c13i-leadercheck ends by losing every shard still led (two leader checks follow); in the 3 s after that the server may write no rate-limit condition to the API",
		NeedInst: []string{"pkg/ratelimiter/limiter/ratelimter.go", "pkg/ratelimiter/limiter/elector/leader_elector.go"},
		Real:     rlReal, Stub: rlStub, Assume: append([]string{"leadership in a replica's own view may overlap with another's for less than a lease under partition: the oracle does not assume a unique leader", "the range/determinism of the shard function over all names is only sampled (a pure function, see DESIGN §6)"}, rlAssume...),
	})
	reg(&Check{
		ID:    "C18",
		Title: "Quota of dead gateway instances is reclaimed; live instances are left alone",
		Batches: []Batch{
			{World: "rl", Profile: "c18-lifecycle", Quick: 300, Thor: 10000, PerProc: 1},
			{World: "rl", Profile: "c18o-overlap", Quick: 400, Thor: 20000, PerProc: 1, FaultFree: true},
		},
		Rule: "each run = 1-2 replicas (store local / API-backed write-through / periodic), one upstream with an allocate and a count schema, 2-4+ instances with real client sets (heartbeats every second); 25-90 steps of allocate reports, acquire reports, clock advances (1-36 s), instances dying or being cut off, coming back with the old identity or joining anew, a replica cut off from the API server; at every boundary: an instance silent for > 36 s under a stable leader has no condition on record, an instance whose heartbeats arrive at the stable leader with gaps < 3 s keeps its condition; at the end a survivor must be granted the in-flight capacity not held by live instances; distinct = distinct trace hash; non-trivial = both clauses were evaluated. Instance names follow a drawn --client-id-prefix style (plain; with the in-memory store also host:port or longer than 63 characters). One joining instance in three sends its first acquire 50-1200 ms after its start, i.e. possibly before its first heartbeat, and may die at once One run in two the instances keep a client for the upstream's leader like the gateway's reconcile loop (every 2 s). Every delete the simulated API applies is logged with how long the deleting replica had led: a replica that has led for less than 2.5 s may not delete the condition of an instance that is alive and whose last heartbeat arrived (anywhere) less than 2.9 s before. With the API-backed store the API object of a condition is sometimes deleted out of band A step makes an instance unreachable for 1.05-1.9 s (one heartbeat lost, the following ones arrive again). Profile c18o-overlap (one replica, bubble + cooperative scheduler over ratelimter.go): a count-strategy schema with global limit 3/10/20; a victim instance holds a count and has not sent a heartbeat for 3.5 s; its last acquire and its reclamation (the statements of the time-out sweep's goroutine) run as sim threads, the reclamation starting at a drawn statement of the acquire; the victim then stays silent, and 40 s later a survivor asking for the whole global limit must be granted it",
		Real: rlReal, Stub: rlStub, Assume: append([]string{"'the cleanup period' is read as the longer of the two shipped mechanisms: 3 s heartbeat timeout + 30 s sweep + 2 s", "heartbeat arrival is observed on the simulated network"}, rlAssume...),
	})
	reg(&Check{ID: "SMOKE", Title: "debug", Batches: []Batch{{World: "gw", Profile: "smoke", Quick: 1, Thor: 1, PerProc: 1}}})
}
