// Package sim holds what every simulated world shares: the per-run context
// (tape, trace, fault/probe counters, violation), and the cooperative
// scheduler for statement-level interleaving.
package sim

import (
	"fmt"
	"hash/fnv"
	"runtime"
	"sort"
	"strings"
	"sync"

	"kgsim/tape"
)

// Violation is what an oracle reports. Class+Sig identify it for known-finding
// matching and for "same violation" during shrinking.
type Violation struct {
	Class string `json:"class"`
	Sig   string `json:"sig"`
	Msg   string `json:"msg"`
	Step  int    `json:"step"`
}

// Result is one simulated run as printed by the worker.
type Result struct {
	Property   string         `json:"property"`
	World      string         `json:"world"`
	Profile    string         `json:"profile"`
	Idx        int            `json:"idx"`
	Seed       uint64         `json:"seed"`
	Tape       []uint32       `json:"tape,omitempty"`
	TapeLen    int            `json:"tape_len"`
	TapeHash   string         `json:"tape_hash"`
	TraceHash  string         `json:"trace_hash"`
	Steps      int            `json:"steps"`
	SimSeconds float64        `json:"sim_seconds"`
	Faults     map[string]int `json:"faults,omitempty"`
	Probes     map[string]int `json:"probes,omitempty"`
	Checks     map[string]int `json:"checks,omitempty"`
	Violation  *Violation     `json:"violation,omitempty"`
	// Extra holds violations that do not end the run's checking (at most one per
	// class+sig): used for behaviour that may be a listed known finding, so that
	// it cannot mask another violation of the same run.
	Extra        []Violation `json:"extra,omitempty"`
	Inconclusive string      `json:"inconclusive,omitempty"`
	Nontrivial   bool        `json:"nontrivial"`
	Sample       interface{} `json:"sample,omitempty"`
	Trace        []string    `json:"trace,omitempty"`
	WallMs       float64     `json:"wall_ms"`
	Crashed      string      `json:"crashed,omitempty"`
	Overrun      int         `json:"overrun,omitempty"`
}

// Run is the per-run context handed to a world.
type Run struct {
	T         *tape.Tape
	Profile   string
	Opts      map[string]string
	KeepTrace bool

	mu      sync.Mutex
	h       uint64
	trace   []string
	nTrace  int
	Step    int
	faults  map[string]int
	probes  map[string]int
	checks  map[string]int
	viol    *Violation
	extra   []Violation
	inconcl string
	Sample  interface{}
	SimSecs float64
	// Nontrivial is set by the world when the property-relevant situation occurred.
	Nontrivial bool
}

func NewRun(t *tape.Tape, profile string, opts map[string]string, keepTrace bool) *Run {
	return &Run{T: t, Profile: profile, Opts: opts, KeepTrace: keepTrace,
		h: 14695981039346656037, faults: map[string]int{}, probes: map[string]int{}, checks: map[string]int{}}
}

// Logf appends a line to the canonical event log. Only deterministic content
// may be logged (no pointers, pids, wall-clock values, map-ordered text).
func (r *Run) Logf(format string, a ...interface{}) {
	s := fmt.Sprintf(format, a...)
	r.mu.Lock()
	for i := 0; i < len(s); i++ {
		r.h ^= uint64(s[i])
		r.h *= 1099511628211
	}
	r.h ^= '\n'
	r.h *= 1099511628211
	r.nTrace++
	if r.KeepTrace || len(r.trace) < 4000 {
		r.trace = append(r.trace, fmt.Sprintf("%04d %s", r.Step, s))
	}
	r.mu.Unlock()
}

func (r *Run) Fault(kind string) {
	r.mu.Lock()
	r.faults[kind]++
	r.mu.Unlock()
}

func (r *Run) Probe(name string) {
	r.mu.Lock()
	r.probes[name]++
	r.mu.Unlock()
}

func (r *Run) ProbeN(name string, n int) {
	r.mu.Lock()
	r.probes[name] += n
	r.mu.Unlock()
}

// Checked counts one evaluation of oracle clause name.
func (r *Run) Checked(name string) {
	r.mu.Lock()
	r.checks[name]++
	r.mu.Unlock()
}

func (r *Run) ProbeCount(name string) int {
	r.mu.Lock()
	defer r.mu.Unlock()
	return r.probes[name]
}

// Violate records the first violation of the run.
func (r *Run) Violate(class, sig, format string, a ...interface{}) {
	r.mu.Lock()
	if r.viol == nil {
		r.viol = &Violation{Class: class, Sig: sig, Msg: fmt.Sprintf(format, a...), Step: r.Step}
	}
	r.mu.Unlock()
}

// Finding records a violation without ending the run's checking.
func (r *Run) Finding(class, sig, format string, a ...interface{}) {
	r.mu.Lock()
	defer r.mu.Unlock()
	for _, e := range r.extra {
		if e.Class == class && e.Sig == sig {
			return
		}
	}
	r.extra = append(r.extra, Violation{Class: class, Sig: sig, Msg: fmt.Sprintf(format, a...), Step: r.Step})
}

func (r *Run) Violated() bool {
	r.mu.Lock()
	defer r.mu.Unlock()
	return r.viol != nil
}

func (r *Run) Inconclusive(why string) {
	r.mu.Lock()
	if r.inconcl == "" {
		r.inconcl = why
	}
	r.mu.Unlock()
}

func (r *Run) Finish(res *Result) {
	r.mu.Lock()
	defer r.mu.Unlock()
	res.Tape = r.T.Values()
	res.TapeLen = len(res.Tape)
	th := fnv.New64a()
	for _, v := range res.Tape {
		th.Write([]byte{byte(v), byte(v >> 8), byte(v >> 16), byte(v >> 24)})
	}
	res.TapeHash = fmt.Sprintf("%016x", th.Sum64())
	res.TraceHash = fmt.Sprintf("%016x", r.h)
	res.Steps = r.Step
	res.SimSeconds = r.SimSecs
	res.Faults = r.faults
	res.Probes = r.probes
	res.Checks = r.checks
	res.Violation = r.viol
	res.Extra = r.extra
	if res.Violation == nil && len(r.extra) > 0 {
		// a run whose only violations are "extra" ones still counts as violating
		v := r.extra[0]
		res.Violation = &v
		res.Extra = r.extra[1:]
	}
	res.Inconclusive = r.inconcl
	res.Nontrivial = r.Nontrivial
	res.Sample = r.Sample
	res.Overrun = r.T.Overrun
	if r.KeepTrace || r.viol != nil || len(r.extra) > 0 {
		res.Trace = r.trace
	}
}

// SortedKeys is a helper for canonical iteration.
func SortedKeys[V any](m map[string]V) []string {
	ks := make([]string, 0, len(m))
	for k := range m {
		ks = append(ks, k)
	}
	sort.Strings(ks)
	return ks
}

// Goroutines returns the stacks of all goroutines whose stack mentions any of
// the given substrings (debug aid for "never finished" violations).
func Goroutines(match ...string) string {
	buf := make([]byte, 4<<20)
	n := runtime.Stack(buf, true)
	var out []string
	for _, g := range strings.Split(string(buf[:n]), "\n\n") {
		for _, m := range match {
			if strings.Contains(g, m) {
				var keep []string
				for _, l := range strings.Split(g, "\n") {
					if !strings.HasPrefix(l, "\t") {
						keep = append(keep, l)
					}
				}
				if len(keep) > 14 {
					keep = keep[:14]
				}
				out = append(out, strings.Join(keep, "\n"))
				break
			}
		}
	}
	return strings.Join(out, "\n\n")
}
