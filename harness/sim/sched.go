package sim

import (
	"fmt"
	"os"
	"runtime"
	"runtime/debug"
	"strings"
	"sync"
	"time"

	"kgsimhook"
)

type tstate int

const (
	tNew tstate = iota
	tRunning
	tParked  // at a yield point
	tBlocked // wants a lock that is held
	tIdle    // between two operations of its workload
	tDone
)

// Thread is a real goroutine that only runs while the driver has resumed it.
type Thread struct {
	ID        int
	Name      string
	resume    chan struct{}
	state     tstate
	site      string
	blockedAt int
	Panic     interface{}
	PanicTop  string
	// Weight > 1 makes the random-walk styles pick this thread that much more
	// often than a thread of weight 1 (a thread whose operations are many
	// statements long otherwise never finishes one while the others live).
	Weight int
	// StallAt > 0: after its StallAt-th resumption the thread is left alone for
	// StallFor resumptions of other threads (a thread descheduled at an arbitrary
	// statement), as far as the random-walk styles are concerned.
	StallAt, StallFor int
	resumed, stallEnd int
}

func (t *Thread) Site() string { return t.site }

// Pick is pick for drivers that resume threads themselves.
func (s *Sched) Pick(el []*Thread) *Thread { return s.pick(el) }

// pick draws one of the threads, proportionally to their weights; with all
// weights at the default it consumes exactly one uniform draw.
func (s *Sched) pick(el []*Thread) *Thread {
	var awake []*Thread
	for _, t := range el {
		if t.StallAt > 0 && t.resumed == t.StallAt {
			if t.stallEnd == 0 {
				t.stallEnd = s.resumes + t.StallFor
			}
			if s.resumes < t.stallEnd {
				continue
			}
		}
		awake = append(awake, t)
	}
	if len(awake) > 0 {
		el = awake
	}
	total := 0
	for _, t := range el {
		if t.Weight > 1 {
			total += t.Weight
		} else {
			total++
		}
	}
	if total == len(el) {
		return el[s.R.T.Draw(len(el))]
	}
	x := s.R.T.Draw(total)
	for _, t := range el {
		w := 1
		if t.Weight > 1 {
			w = t.Weight
		}
		if x -= w; x < 0 {
			return t
		}
	}
	return el[len(el)-1]
}

// Sched is the cooperative scheduler behind kgsimhook.
type Sched struct {
	R        *Run
	mu       sync.Mutex
	threads  []*Thread
	byG      sync.Map // goid -> *Thread
	ev       chan struct{}
	progress int
	// Enabled decides which yield sites park (site is "file.go:line").
	Enabled func(site string) bool
	// Quiesce, when set, replaces waiting for the resumed thread's next event
	// (bubble worlds pass synctest.Wait).
	Quiesce func()
	Yields  int
	// PreemptSites, when set (bubble worlds), makes goroutines that are not sim
	// threads give up the processor at one in three of the instrumented statements
	// it accepts: other runnable goroutines of the system run in between.
	// PCTSpan, when > 0, is the step range the PCT style draws its change
	// points from (default: a quarter of the step budget).
	PCTSpan int
	resumes int
	// Stuck names a thread that did not come back from a resumption (non-bubble worlds).
	Stuck        string
	PreemptSites func(site string) bool
	Preempts     int
	preemptState uint64

	points   []*Point
	pointSeq int
}

func NewSched(r *Run) *Sched {
	return &Sched{R: r, ev: make(chan struct{}, 1<<16), Enabled: func(string) bool { return true }}
}

// Install makes this scheduler the target of the instrumented code.
func (s *Sched) Install()   { kgsimhook.Install(s) }
func (s *Sched) Uninstall() { kgsimhook.Install(nil) }

func (s *Sched) self() *Thread {
	if v, ok := s.byG.Load(kgsimhook.Goid()); ok {
		return v.(*Thread)
	}
	return nil
}

func (s *Sched) IsSimThread() bool { return s.self() != nil }

// Current returns the sim thread the caller runs on (nil off sim threads).
func (s *Sched) Current() *Thread { return s.self() }

// InBubble: bubble worlds set Quiesce.
func (s *Sched) InBubble() bool { return s.Quiesce != nil }

func (s *Sched) park(t *Thread, st tstate, site string) {
	s.mu.Lock()
	t.state = st
	t.site = site
	if st == tBlocked {
		t.blockedAt = s.progress
	}
	s.mu.Unlock()
	s.ev <- struct{}{}
	<-t.resume
}

// yieldLog (KG_YIELDLOG=1): debugging aid, every preemption-fuzzing site visit goes into the trace.
var yieldLog = os.Getenv("KG_YIELDLOG") != ""

// DebugTicks is set by the worker (patched runtime only): scheduler and syscall tick of the processor.
var DebugTicks func() (uint32, uint32)

func (s *Sched) Yield(site string) {
	t := s.self()
	if t == nil {
		// a goroutine of the system itself (bubble worlds): statement-level preemption,
		// decided by a PRNG of the run that advances in program order
		if s.PreemptSites != nil && s.PreemptSites(site) {
			s.preemptState ^= s.preemptState << 13
			s.preemptState ^= s.preemptState >> 7
			s.preemptState ^= s.preemptState << 17
			if yieldLog {
				var a, b uint32
				if DebugTicks != nil {
					a, b = DebugTicks()
				}
				s.R.Logf("    y g%d %s %v tick=%d sys=%d", kgsimhook.Goid(), site, s.preemptState%3 == 0, a, b)
			}
			if s.preemptState%3 == 0 {
				s.Preempts++
				runtime.Gosched()
			}
		}
		return
	}
	if !s.Enabled(site) {
		return
	}
	s.Yields++
	s.park(t, tParked, site)
}

func (s *Sched) Blocked(site string) {
	t := s.self()
	if t == nil {
		panic("kgsim: Blocked called off a sim thread")
	}
	s.park(t, tBlocked, site)
}

// SeedPreemption sets the PRNG of PreemptSites (a value drawn from the tape).
func (s *Sched) SeedPreemption(seed uint64) { s.preemptState = seed*2654435761 + 88172645463325252 }

// Boundary is called by workload code between two operations.
func (s *Sched) Boundary() {
	t := s.self()
	if t == nil {
		return
	}
	s.park(t, tIdle, "op-boundary")
}

// Go registers a new sim thread; it starts parked.
func (s *Sched) Go(name string, fn func()) *Thread {
	t := &Thread{ID: len(s.threads), Name: name, resume: make(chan struct{})}
	s.mu.Lock()
	s.threads = append(s.threads, t)
	s.mu.Unlock()
	ready := make(chan struct{})
	go func() {
		g := kgsimhook.Goid()
		s.byG.Store(g, t)
		close(ready)
		<-t.resume
		defer func() {
			if p := recover(); p != nil {
				t.Panic = p
				t.PanicTop = topRepoFrame(string(debug.Stack()))
			}
			s.byG.Delete(g)
			s.mu.Lock()
			t.state = tDone
			s.mu.Unlock()
			s.ev <- struct{}{}
		}()
		fn()
	}()
	<-ready
	return t
}

func topRepoFrame(stack string) string {
	lines := strings.Split(stack, "\n")
	for i, l := range lines {
		if strings.HasPrefix(l, "github.com/kubewharf/kubegateway/") || strings.HasPrefix(l, "github.com/zoumo/golib") {
			fn := l
			if j := strings.LastIndex(fn, "("); j > 0 {
				fn = fn[:j]
			}
			loc := ""
			if i+1 < len(lines) {
				loc = strings.TrimSpace(lines[i+1])
				if j := strings.Index(loc, " +0x"); j > 0 {
					loc = loc[:j]
				}
				if j := strings.LastIndex(loc, "/"); j >= 0 {
					loc = loc[j+1:]
				}
			}
			return fn + "@" + loc
		}
	}
	return "unknown"
}

// TopRepoFrame exposes the signature extraction for worlds that recover panics themselves.
func TopRepoFrame(stack string) string { return topRepoFrame(stack) }

// Eligible returns the threads the driver may resume now, in thread order.
func (s *Sched) Eligible() []*Thread {
	s.mu.Lock()
	defer s.mu.Unlock()
	var out []*Thread
	for _, t := range s.threads {
		switch t.state {
		case tNew, tParked, tIdle:
			out = append(out, t)
		case tBlocked:
			if s.progress > t.blockedAt {
				out = append(out, t)
			}
		}
	}
	return out
}

// AllQuiet reports whether every thread is idle (between operations) or done.
func (s *Sched) AllQuiet() bool {
	s.mu.Lock()
	defer s.mu.Unlock()
	for _, t := range s.threads {
		if t.state != tIdle && t.state != tDone && t.state != tNew {
			return false
		}
	}
	return true
}

func (s *Sched) AllDone() bool {
	s.mu.Lock()
	defer s.mu.Unlock()
	for _, t := range s.threads {
		if t.state != tDone {
			return false
		}
	}
	return true
}

// Resume lets t run until its next sim point.
func (s *Sched) Resume(t *Thread) {
	s.mu.Lock()
	was := t.state
	t.state = tRunning
	t.resumed++
	s.resumes++
	s.mu.Unlock()
	t.resume <- struct{}{}
	if s.Quiesce != nil {
		s.Quiesce()
		for {
			select {
			case <-s.ev:
				continue
			default:
			}
			break
		}
	} else {
		// outside a bubble a thread that blocks for good outside the instrumented
		// code (a channel operation of the system nobody will ever complete) would
		// hold the scheduler for ever: give up on the run after 5 s of real time
		select {
		case <-s.ev:
		case <-time.After(5 * time.Second):
			s.Stuck = t.Name + " at " + t.site
			return
		}
	}
	s.mu.Lock()
	if !(was == tBlocked && t.state == tBlocked) {
		s.progress++
	}
	s.mu.Unlock()
}

// Describe returns a canonical one-line description of all thread states.
func (s *Sched) Describe() string {
	s.mu.Lock()
	defer s.mu.Unlock()
	var b strings.Builder
	for _, t := range s.threads {
		fmt.Fprintf(&b, "%s:%d@%s ", t.Name, t.state, t.site)
	}
	return b.String()
}

// RunAll drives all threads to completion. style 0 = uniform random walk,
// style 1 = PCT-like (priority order with d drawn change points).
// atQuiet is called whenever all threads are between operations.
// It returns "" or "deadlock"/"steps".
func (s *Sched) RunAll(maxSteps int, style int, atQuiet func()) string {
	r := s.R
	n := len(s.threads)
	prio := make([]int, n) // higher runs first
	var change map[int]bool
	if style == 1 {
		// drawn permutation + up to 3 change points
		perm := make([]int, n)
		for i := range perm {
			perm[i] = i
		}
		for i := n - 1; i > 0; i-- {
			j := r.T.Draw(i + 1)
			perm[i], perm[j] = perm[j], perm[i]
		}
		for i, p := range perm {
			prio[p] = n - i + 10
		}
		change = map[int]bool{}
		span := maxSteps/4 + 1
		if s.PCTSpan > 0 {
			span = s.PCTSpan
		}
		d := r.T.Draw(4)
		for i := 0; i < d; i++ {
			change[1+r.T.Draw(span)] = true
		}
	}
	low := 0
	for step := 0; ; step++ {
		if s.AllDone() {
			return ""
		}
		if atQuiet != nil && s.AllQuiet() {
			atQuiet()
			if r.Violated() {
				return ""
			}
		}
		if step >= maxSteps {
			return "steps"
		}
		el := s.Eligible()
		if len(el) == 0 {
			return "deadlock"
		}
		var t *Thread
		if style == 1 {
			best := el[0]
			for _, c := range el[1:] {
				if prio[c.ID] > prio[best.ID] {
					best = c
				}
			}
			if change[step] {
				low--
				prio[best.ID] = low
				best = el[0]
				for _, c := range el[1:] {
					if prio[c.ID] > prio[best.ID] {
						best = c
					}
				}
			}
			t = best
		} else {
			t = s.pick(el)
		}
		r.Step = step
		s.Resume(t)
		if s.Stuck != "" {
			return "stuck: " + s.Stuck
		}
	}
}

// Threads returns all registered threads.
func (s *Sched) Threads() []*Thread {
	s.mu.Lock()
	defer s.mu.Unlock()
	return append([]*Thread(nil), s.threads...)
}

func (s *Sched) isIdle(t *Thread) bool {
	s.mu.Lock()
	defer s.mu.Unlock()
	return t.state == tIdle || t.state == tNew
}

// RunRounds drives the threads in rounds: at every quiet point a drawn
// non-empty subset of threads starts its next operation, and only threads
// that are inside an operation run until all are quiet again. Every round
// therefore ends in a full quiescent snapshot.
func (s *Sched) RunRounds(maxSteps int, style int, atQuiet func()) string {
	r := s.R
	step := 0
	for {
		if s.AllDone() {
			return ""
		}
		if !s.AllQuiet() {
			return "not-quiet"
		}
		if atQuiet != nil {
			atQuiet()
			if r.Violated() {
				return ""
			}
		}
		// choose who starts an operation
		var idle []*Thread
		for _, t := range s.Eligible() {
			if s.isIdle(t) {
				idle = append(idle, t)
			}
		}
		if len(idle) == 0 {
			return "deadlock"
		}
		k := 1 + r.T.Draw(len(idle))
		for i := 0; i < k; i++ {
			j := r.T.Draw(len(idle))
			t := idle[j]
			idle = append(idle[:j], idle[j+1:]...)
			r.Step = step
			step++
			s.Resume(t)
			if s.Stuck != "" {
				return "stuck: " + s.Stuck
			}
		}
		// run the busy ones to quiescence
		cur := -1
		for !s.AllQuiet() {
			if step >= maxSteps {
				return "steps"
			}
			var busy []*Thread
			for _, t := range s.Eligible() {
				if !s.isIdle(t) {
					busy = append(busy, t)
				}
			}
			if len(busy) == 0 {
				return "deadlock"
			}
			var t *Thread
			if style == 1 {
				// stay on the current thread, switch with probability 1/4
				for _, b := range busy {
					if b.ID == cur {
						t = b
					}
				}
				if t == nil || r.T.Draw(4) == 3 {
					t = s.pick(busy)
				}
				cur = t.ID
			} else {
				t = s.pick(busy)
			}
			r.Step = step
			step++
			s.Resume(t)
		}
	}
}

// ---------------------------------------------------------------------------
// Sim points of arbitrary goroutines (bubble worlds): network, API, stubs.

// Point is a goroutine parked at a sim point until the driver releases it
// with an outcome.
type Point struct {
	Kind   string // e.g. "api-pre", "api-post", "upstream", "dial"
	Key    string // canonical, deterministic description
	Seq    int    // arrival order among points with the same key
	Node   string // owner (for crash: points of a dead node are never released)
	Data   interface{}
	resume chan int
}

// ParkPoint blocks the calling goroutine (any goroutine) until the driver
// releases the point, and returns the outcome the driver chose.
func (s *Sched) ParkPoint(kind, node, key string, data interface{}) int {
	p := &Point{Kind: kind, Key: key, Node: node, Data: data, resume: make(chan int)}
	s.mu.Lock()
	s.pointSeq++
	p.Seq = s.pointSeq
	s.points = append(s.points, p)
	s.mu.Unlock()
	select {
	case s.ev <- struct{}{}:
	default:
	}
	return <-p.resume
}

// Points returns the parked points in canonical order (key, then arrival).
func (s *Sched) Points() []*Point {
	s.mu.Lock()
	out := append([]*Point(nil), s.points...)
	s.mu.Unlock()
	sortPoints(out)
	return out
}

func sortPoints(ps []*Point) {
	for i := 1; i < len(ps); i++ {
		for j := i; j > 0; j-- {
			a, b := ps[j-1], ps[j]
			if a.Key > b.Key || (a.Key == b.Key && a.Seq > b.Seq) {
				ps[j-1], ps[j] = b, a
			} else {
				break
			}
		}
	}
}

// Release lets the goroutine parked at p continue with outcome, then waits
// for quiescence.
func (s *Sched) Release(p *Point, outcome int) {
	s.mu.Lock()
	for i, q := range s.points {
		if q == p {
			s.points = append(s.points[:i], s.points[i+1:]...)
			break
		}
	}
	s.progress++
	s.mu.Unlock()
	p.resume <- outcome
	s.settle()
}

// Drop forgets a point without ever releasing it (its goroutine belongs to a
// crashed node and stays parked for ever).
func (s *Sched) Drop(p *Point) {
	s.mu.Lock()
	for i, q := range s.points {
		if q == p {
			s.points = append(s.points[:i], s.points[i+1:]...)
			break
		}
	}
	s.mu.Unlock()
}

func (s *Sched) settle() {
	if s.Quiesce != nil {
		s.Quiesce()
	}
	for {
		select {
		case <-s.ev:
			continue
		default:
		}
		return
	}
}

// Settle waits for quiescence (bubble worlds).
func (s *Sched) Settle() { s.settle() }

// Advance moves the fake clock forward by at most d, stopping early as soon
// as some goroutine reaches a sim point. It returns the time that passed.
func (s *Sched) Advance(d time.Duration) time.Duration {
	s.settle()
	start := time.Now()
	tm := time.NewTimer(d)
	select {
	case <-tm.C:
	case <-s.ev:
		tm.Stop()
	}
	s.settle()
	return time.Since(start)
}

// Done reports whether the thread's function has returned.
func (t *Thread) Done() bool { return t.state == tDone }
