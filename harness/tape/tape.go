// Package tape is the single source of randomness of a simulated run.
//
// A fresh run draws from splitmix64(seed) and records every draw; a replay
// reads the recorded list and never touches a PRNG. Draw value 0 is always the
// "simplest" alternative, so zeroing or truncating a tape shrinks the run.
package tape

type Tape struct {
	state  uint64
	rec    []uint32
	pos    int
	replay bool
	// Overrun counts draws past the end of a replayed tape (answered 0).
	Overrun int
}

func splitmix(x *uint64) uint64 {
	*x += 0x9e3779b97f4a7c15
	z := *x
	z = (z ^ (z >> 30)) * 0xbf58476d1ce4e5b9
	z = (z ^ (z >> 27)) * 0x94d049bb133111eb
	return z ^ (z >> 31)
}

// Mix derives the seed of run idx of a batch from the batch seed.
func Mix(seed uint64, idx uint64) uint64 {
	x := seed ^ (idx+1)*0xd1342543de82ef95
	splitmix(&x)
	return splitmix(&x)
}

// HashString folds a string into a seed (FNV-1a).
func HashString(s string) uint64 {
	h := uint64(14695981039346656037)
	for i := 0; i < len(s); i++ {
		h ^= uint64(s[i])
		h *= 1099511628211
	}
	return h
}

func New(seed uint64) *Tape { return &Tape{state: seed} }

func Replay(vals []uint32) *Tape {
	return &Tape{rec: append([]uint32(nil), vals...), replay: true}
}

// Draw returns a value in [0,n). n <= 1 returns 0 and consumes nothing.
func (t *Tape) Draw(n int) int {
	if n <= 1 {
		return 0
	}
	if t.replay {
		if t.pos >= len(t.rec) {
			t.Overrun++
			t.pos++
			return 0
		}
		v := int(t.rec[t.pos] % uint32(n))
		t.pos++
		return v
	}
	v := uint32(splitmix(&t.state) % uint64(n))
	t.rec = append(t.rec, v)
	t.pos++
	return int(v)
}

// Bool draws a coin that is true with probability num/den (false is the simple value).
func (t *Tape) Bool(num, den int) bool {
	if num <= 0 {
		return false
	}
	return t.Draw(den) >= den-num
}

// Range draws from [lo,hi] inclusive; lo is the simple value.
func (t *Tape) Range(lo, hi int) int {
	if hi <= lo {
		return lo
	}
	return lo + t.Draw(hi-lo+1)
}

// Pick draws an index weighted by w (w[i] >= 0). Index of the first positive
// weight is the simple value.
func (t *Tape) Pick(w []int) int {
	total := 0
	for _, x := range w {
		if x > 0 {
			total += x
		}
	}
	if total == 0 {
		return 0
	}
	v := t.Draw(total)
	for i, x := range w {
		if x <= 0 {
			continue
		}
		if v < x {
			return i
		}
		v -= x
	}
	return len(w) - 1
}

// Values returns what was drawn (fresh run) or the part of the replayed tape
// that was consumed.
func (t *Tape) Values() []uint32 {
	if t.replay {
		n := t.pos
		if n > len(t.rec) {
			n = len(t.rec)
		}
		return append([]uint32(nil), t.rec[:n]...)
	}
	return append([]uint32(nil), t.rec...)
}

func (t *Tape) Pos() int { return t.pos }
