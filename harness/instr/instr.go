// Package instr produces yield-instrumented copies of Go source files:
// a kgsimhook.Yield("<file>:<line>") before every statement of the selected
// functions, and x.Lock()/x.RLock() statements turned into cooperative lock
// acquisition. Nothing else is changed.
package instr

import (
	"bytes"
	"fmt"
	"go/ast"
	"go/format"
	"go/parser"
	"go/token"
	"os"
	"path/filepath"
	"strconv"
	"strings"
)

// Target selects functions of one file. Funcs empty = every function.
// A func name is "Name" for functions and "Recv.Name" for methods.
type Target struct {
	File  string   // path relative to the module root
	Funcs []string // required functions (missing => error listed in Missing)
	All   bool     // instrument every function in the file
	// Patches are literal text replacements applied before the AST pass
	// (each Old must occur exactly Count times, else it is reported missing).
	Patches []Patch
	// NoYield: apply only the patches, insert no yield points.
	NoYield bool
}

type Patch struct {
	Name  string
	Old   string
	New   string
	Count int
}

type Report struct {
	File    string
	Yields  int
	Locks   int
	Funcs   []string
	Missing []string
}

func recvName(fd *ast.FuncDecl) string {
	if fd.Recv == nil || len(fd.Recv.List) == 0 {
		return fd.Name.Name
	}
	t := fd.Recv.List[0].Type
	for {
		switch x := t.(type) {
		case *ast.StarExpr:
			t = x.X
			continue
		case *ast.IndexExpr:
			t = x.X
			continue
		case *ast.Ident:
			return x.Name + "." + fd.Name.Name
		}
		return fd.Name.Name
	}
}

// File instruments src (contents of file name) and returns the new source.
func File(name string, src []byte, tg Target) ([]byte, Report, error) {
	rep := Report{File: tg.File}
	fset := token.NewFileSet()
	f, err := parser.ParseFile(fset, name, src, parser.SkipObjectResolution)
	if err != nil {
		return nil, rep, err
	}
	base := filepath.Base(name)
	want := map[string]bool{}
	for _, fn := range tg.Funcs {
		want[fn] = true
	}
	found := map[string]bool{}

	yield := func(pos token.Pos) ast.Stmt {
		site := base + ":" + strconv.Itoa(fset.Position(pos).Line)
		rep.Yields++
		return &ast.ExprStmt{X: &ast.CallExpr{
			Fun:  &ast.SelectorExpr{X: ast.NewIdent("kgsimhook"), Sel: ast.NewIdent("Yield")},
			Args: []ast.Expr{&ast.BasicLit{Kind: token.STRING, Value: strconv.Quote(site)}},
		}}
	}
	rewriteLock := func(st ast.Stmt) ast.Stmt {
		es, ok := st.(*ast.ExprStmt)
		if !ok {
			return nil
		}
		call, ok := es.X.(*ast.CallExpr)
		if !ok || len(call.Args) != 0 {
			return nil
		}
		sel, ok := call.Fun.(*ast.SelectorExpr)
		if !ok {
			return nil
		}
		var try string
		switch sel.Sel.Name {
		case "Lock":
			try = "TryLock"
		case "RLock":
			try = "TryRLock"
		default:
			return nil
		}
		// sync.Locker (cond.L) has no TryLock: leave it alone
		if inner, ok := sel.X.(*ast.SelectorExpr); ok && inner.Sel.Name == "L" {
			return nil
		}
		site := base + ":" + strconv.Itoa(fset.Position(st.Pos()).Line)
		rep.Locks++
		return &ast.ExprStmt{X: &ast.CallExpr{
			Fun: &ast.SelectorExpr{X: ast.NewIdent("kgsimhook"), Sel: ast.NewIdent("LockF")},
			Args: []ast.Expr{
				&ast.SelectorExpr{X: sel.X, Sel: ast.NewIdent(sel.Sel.Name)},
				&ast.SelectorExpr{X: sel.X, Sel: ast.NewIdent(try)},
				&ast.BasicLit{Kind: token.STRING, Value: strconv.Quote(site)},
			},
		}}
	}
	doList := func(list []ast.Stmt) []ast.Stmt {
		out := make([]ast.Stmt, 0, 2*len(list))
		for _, st := range list {
			if l := rewriteLock(st); l != nil {
				out = append(out, l) // LockF yields by itself
				continue
			}
			out = append(out, yield(st.Pos()), st)
		}
		return out
	}
	var walk func(n ast.Node)
	walk = func(n ast.Node) {
		ast.Inspect(n, func(x ast.Node) bool {
			switch b := x.(type) {
			case *ast.SwitchStmt:
				for _, c := range b.Body.List {
					walk(c)
				}
				return false
			case *ast.TypeSwitchStmt:
				for _, c := range b.Body.List {
					walk(c)
				}
				return false
			case *ast.SelectStmt:
				for _, c := range b.Body.List {
					walk(c)
				}
				return false
			case *ast.BlockStmt:
				// children first, so inserted statements are not revisited
				for _, st := range b.List {
					walk(st)
				}
				b.List = doList(b.List)
				return false
			case *ast.CaseClause:
				for _, st := range b.Body {
					walk(st)
				}
				b.Body = doList(b.Body)
				return false
			case *ast.CommClause:
				for _, st := range b.Body {
					walk(st)
				}
				b.Body = doList(b.Body)
				return false
			}
			return true
		})
	}
	for _, d := range f.Decls {
		fd, ok := d.(*ast.FuncDecl)
		if !ok || fd.Body == nil {
			continue
		}
		name := recvName(fd)
		if fd.Name.Name == "init" {
			continue
		}
		if !tg.All && !want[name] {
			continue
		}
		found[name] = true
		rep.Funcs = append(rep.Funcs, name)
		walk(fd.Body)
	}
	for _, fn := range tg.Funcs {
		if !found[fn] {
			rep.Missing = append(rep.Missing, fn)
		}
	}
	// drop comments (positions of inserted nodes would misplace them) but keep
	// build constraints, which must survive.
	var keep []*ast.CommentGroup
	for _, cg := range f.Comments {
		if cg.End() < f.Package {
			for _, c := range cg.List {
				if strings.HasPrefix(c.Text, "//go:build") || strings.HasPrefix(c.Text, "// +build") {
					keep = append(keep, cg)
					break
				}
			}
		}
	}
	f.Comments = keep
	for _, d := range f.Decls {
		if fd, ok := d.(*ast.FuncDecl); ok {
			fd.Doc = nil
		}
		if gd, ok := d.(*ast.GenDecl); ok {
			gd.Doc = nil
		}
	}
	f.Doc = nil
	// add the import
	imp := &ast.ImportSpec{Path: &ast.BasicLit{Kind: token.STRING, Value: `"kgsimhook"`}}
	gd := &ast.GenDecl{Tok: token.IMPORT, Specs: []ast.Spec{imp}}
	f.Decls = append([]ast.Decl{gd}, f.Decls...)
	f.Imports = append(f.Imports, imp)

	var buf bytes.Buffer
	if err := format.Node(&buf, fset, f); err != nil {
		return nil, rep, err
	}
	// keep the compiler happy when nothing used the import
	buf.WriteString("\nvar _ = kgsimhook.Yield\n")
	out, err := format.Source(buf.Bytes())
	if err != nil {
		return nil, rep, fmt.Errorf("formatting %s: %v", name, err)
	}
	return out, rep, nil
}

// Tree instruments targets found under root, writes the copies under outDir
// and returns the overlay map (original absolute path -> copy).
func Tree(root, outDir string, targets []Target) (map[string]string, []Report, error) {
	ov := map[string]string{}
	var reps []Report
	for _, tg := range targets {
		p := filepath.Join(root, tg.File)
		src, err := os.ReadFile(p)
		if err != nil {
			reps = append(reps, Report{File: tg.File, Missing: append([]string{"<file>"}, tg.Funcs...)})
			continue
		}
		var pmiss []string
		for _, pt := range tg.Patches {
			if strings.Count(string(src), pt.Old) != pt.Count {
				pmiss = append(pmiss, "patch:"+pt.Name)
				continue
			}
			src = []byte(strings.ReplaceAll(string(src), pt.Old, pt.New))
		}
		var out []byte
		var rep Report
		if tg.NoYield {
			out, rep = src, Report{File: tg.File}
		} else {
			out, rep, err = File(p, src, tg)
		}
		rep.Missing = append(rep.Missing, pmiss...)
		if err != nil {
			return nil, reps, fmt.Errorf("%s: %v", tg.File, err)
		}
		reps = append(reps, rep)
		dst := filepath.Join(outDir, strings.ReplaceAll(tg.File, "/", "__"))
		if err := os.MkdirAll(filepath.Dir(dst), 0o755); err != nil {
			return nil, reps, err
		}
		if err := os.WriteFile(dst, out, 0o644); err != nil {
			return nil, reps, err
		}
		ov[p] = dst
	}
	return ov, reps, nil
}
